#!/usr/bin/env python3
"""Validates the engine's reference model against independent authorities:
Python's fractions.Fraction, decimal (whose eight rounding modes are the ones the
properties name), int, float(Fraction) / struct, and a regular expression for the
literal grammar. Input: JSONL written by `fpmc oracle-dump`. Exit 0 if every record
agrees, 2 otherwise (a machinery failure, never a verdict about /repo)."""
import sys, json, re, struct
from fractions import Fraction
import decimal
from decimal import Decimal as D

decimal.getcontext().prec = 400
decimal.getcontext().Emax = 999999
decimal.getcontext().Emin = -999999
M = 2**127 - 1
MIN = -2**127
bad = 0
count = {}

def fail(rec, why):
    global bad
    bad += 1
    if bad <= 20:
        print("ORACLE-DISAGREEMENT", why, json.dumps(rec)[:400])

def rnd(fr, mode):
    """round Fraction to integer under a decimal rounding mode"""
    d = D(fr.numerator) / D(fr.denominator) if False else None
    # exact: use decimal.quantize on an exact decimal expansion when the denominator is 2^a 5^b, otherwise scale
    n, dn = fr.numerator, fr.denominator
    q, r = divmod(abs(n), dn)
    sign = -1 if n < 0 else 1
    # build a Decimal with the same comparison to the half: q + {0, .25, .5, .75}
    if r == 0: tail = D(0)
    elif 2 * r < dn: tail = D("0.25")
    elif 2 * r == dn: tail = D("0.5")
    else: tail = D("0.75")
    x = (D(q) + tail) * sign
    return int(x.quantize(D(1), rounding=getattr(decimal, mode)))

def check_exp(rec, exp, value_or_none, scale=None, fail_kinds_ok=True):
    """value_or_none: (Fraction value, required scale or None) or None for failure"""
    k = exp["k"]
    if k == "either":
        inner = exp["inner"]
        return check_exp(rec, inner, value_or_none, scale) if value_or_none is not None else True
    if value_or_none is None:
        if k != "fail": fail(rec, "model expects a value where the reference says failure")
        return
    val, sc = value_or_none
    if k == "fail":
        fail(rec, "model expects failure where the reference gives %s" % val); return
    c = int(exp["c"]); s = exp["s"]
    if Fraction(c, 10**s) != val: fail(rec, "model value %s != reference %s" % (Fraction(c, 10**s), val)); return
    if k == "exact" and sc is not None and s != sc: fail(rec, "model scale %d != %d" % (s, sc))

def in_range(c): return -M <= c <= M
def edge(c): return c == MIN

LIT = re.compile(r'^([+-]?)(?:(\d+)(?:\.(\d*))?|\.(\d+))(?:[eE]([+-]?\d+))?$')

for line in open(sys.argv[1]):
    rec = json.loads(line)
    f = rec["f"]
    count[f] = count.get(f, 0) + 1
    try:
        if f == "round_div":
            want = rnd(Fraction(int(rec["num"]), int(rec["den"])), rec["mode"])
            if want != int(rec["q"]): fail(rec, "rounded quotient %d" % want)
        elif f == "add_sub":
            a, p, b, q = int(rec["a"]), rec["p"], int(rec["b"]), rec["q"]
            m = max(p, q)
            A, B = a * 10**(m - p), b * 10**(m - q)
            R = A - B if rec["sub"] else A + B
            ok = all(MIN <= v <= 2**127 - 1 for v in (A, B, R))
            tol = R == MIN or (p != m and A == MIN) or (q != m and B == MIN)
            if rec["exp"]["k"] == "either":
                if not tol: fail(rec, "tolerance used outside the -2^127 edge")
            check_exp(rec, rec["exp"], (Fraction(R, 10**m), m) if ok else None)
        elif f in ("mul", "mul_rounded"):
            a, p, b, q = int(rec["a"]), rec["p"], int(rec["b"]), rec["q"]
            exact = Fraction(a * b, 10**(p + q))
            n = 18 if f == "mul" else rec["n"]
            if p + q <= n: c, s = a * b, p + q
            else: c, s = rnd(exact * 10**n, rec["mode"]), n
            special = a == 0 or b == 0 or (f == "mul" and (a == 10**p or b == 10**q))
            if special: check_exp(rec, rec["exp"], (exact, None))
            elif in_range(c) or edge(c): check_exp(rec, rec["exp"], (Fraction(c, 10**s), s if c != 0 else None))
            else: check_exp(rec, rec["exp"], None)
        elif f in ("div", "div_rounded", "quantize"):
            a, p, b, q = int(rec["a"]), rec["p"], int(rec["b"]), rec["q"]
            if b == 0: check_exp(rec, rec["exp"], None); continue
            exact = Fraction(a, 10**p) / Fraction(b, 10**q)
            if f == "quantize":
                cnt = rnd(exact, rec["mode"])
                val = Fraction(cnt * b, 10**q)
                res = cnt * b
                # representable at scale q, or (tolerated) at a smaller scale / count overflow
                norm, ns = res, q
                while ns > 0 and norm % 10 == 0 and norm != 0: norm //= 10; ns -= 1
                if a == 0 or res == 0: check_exp(rec, rec["exp"], (Fraction(0), None))
                elif in_range(res): check_exp(rec, rec["exp"], (val, None))
                elif in_range(norm) or edge(res): 
                    if rec["exp"]["k"] != "either": fail(rec, "expected tolerant expectation")
                    else: check_exp(rec, rec["exp"], (val, None))
                else: check_exp(rec, rec["exp"], None)
                continue
            n = 18 if f == "div" else rec["n"]
            c = rnd(exact * 10**n, rec["mode"])
            if a == 0: check_exp(rec, rec["exp"], (Fraction(0), None)); continue
            if f == "div":
                if b == 10**q: check_exp(rec, rec["exp"], (Fraction(a, 10**p), None)); continue
                if not (MIN <= c <= 2**127 - 1): check_exp(rec, rec["exp"], None); continue
                s = 18
                while s > 0 and c % 10 == 0: c //= 10; s -= 1
                if c == 0: s = 0
                check_exp(rec, rec["exp"], (Fraction(c, 10**s), s))
            else:
                if in_range(c) or edge(c): check_exp(rec, rec["exp"], (Fraction(c, 10**n), n if c != 0 else None))
                else: check_exp(rec, rec["exp"], None)
        elif f == "rem":
            a, p, b, q = int(rec["a"]), rec["p"], int(rec["b"]), rec["q"]
            if b == 0: check_exp(rec, rec["exp"], None); continue
            X, Y = Fraction(a, 10**p), Fraction(b, 10**q)
            t = abs(X) // abs(Y)
            t = t if (X >= 0) == (Y >= 0) else -t
            r = X - Y * t
            assert abs(r) < abs(Y) and (r == 0 or (r > 0) == (X > 0))
            stepwise = p < q and not (MIN <= a * 10**(q - p) <= 2**127 - 1)
            if (rec["exp"]["k"] == "either") != stepwise: fail(rec, "overflow tolerance must be exactly the p<q up-scaling overflow case")
            check_exp(rec, rec["exp"], (r, None))
        elif f == "round":
            a, p, n = int(rec["a"]), rec["p"], rec["n"]
            if n >= p: check_exp(rec, rec["exp"], (Fraction(a, 10**p), p)); continue
            x = D(a).scaleb(-p)
            qd = x.quantize(D(1).scaleb(-n), rounding=getattr(decimal, rec["mode"]))  # Python's own decimal rounding
            val = Fraction(qd)
            c = int(val * 10**max(n, 0))
            if in_range(c) or edge(c): check_exp(rec, rec["exp"], (val, max(n, 0) if c != 0 else None))
            else: check_exp(rec, rec["exp"], None)
        elif f == "parse":
            s = rec["s"]; w = rec["want"]
            if s == "":
                if w["k"] != "empty": fail(rec, "empty string")
                continue
            m = LIT.match(s) if s.isascii() else None
            if not m:
                if w["k"] != "err": fail(rec, "grammar says invalid")
                continue
            sign, i1, f1, f2, e = m.groups()
            intp = i1 or ""; frac = (f1 if i1 is not None else f2) or ""
            digits = intp + frac
            exp = int(e) if e else 0
            coeff = int(digits)
            f_after = len(frac) - exp
            val = Fraction(coeff) / Fraction(10)**f_after * (-1 if sign == "-" else 1)
            if w["k"] == "ok":
                c, sc = int(w["c"]), w["s"]
                if Fraction(c, 10**sc) != val or sc != max(0, f_after) or not in_range(c) or f_after > 18: fail(rec, "accepted literal: value/scale/range")
            elif w["k"] == "err":
                scaled = coeff * 10**max(0, -f_after) if -f_after < 200 else M + 1
                # must be rejected: too many fractional digits (not only trailing zeros / zero) or out of range
                if f_after <= 18 and in_range(scaled) and not (coeff == 0 and f_after < -38): fail(rec, "model rejects a literal the text accepts")
            elif w["k"] == "ok_or_err":
                c, sc = int(w["c"]), w["s"]
                if Fraction(c, 10**sc) != val: fail(rec, "tolerated literal with wrong value")
                if not (f_after > 18 or (coeff == 0 and f_after < -38)): fail(rec, "tolerance used for a plainly valid literal")
        elif f == "canonical":
            a, s = int(rec["a"]), rec["s"]
            t = format(D(a).scaleb(-s), "f")
            if a == 0 and s > 0: t = "0." + "0" * s
            if t != rec["text"]: fail(rec, "canonical text %s" % t)
        elif f == "ratio":
            fr = Fraction(int(rec["a"]), 10**rec["s"])
            if (fr.numerator, fr.denominator) != (int(rec["n"]), int(rec["d"])): fail(rec, "ratio %s" % fr)
        elif f == "to_float":
            a, s = int(rec["a"]), rec["s"]
            x = float(Fraction(a, 10**s))   # correctly rounded by Python
            b64 = struct.unpack("<Q", struct.pack("<d", x))[0] if a != 0 else 0
            if b64 != int(rec["f64_bits"]): fail(rec, "f64 bits %x" % b64)
            # f32: round the exact value directly (not via double): use decimal -> nearest via Fraction comparison
            if a != 0:
                fr = abs(Fraction(a, 10**s))
                e = fr.numerator.bit_length() - fr.denominator.bit_length()
                while Fraction(2)**e > fr: e -= 1
                while Fraction(2)**(e + 1) <= fr: e += 1
                scaled = fr / Fraction(2)**(e - 23)
                mnt = scaled.numerator // scaled.denominator
                rem = scaled - mnt
                if rem > Fraction(1, 2) or (rem == Fraction(1, 2) and mnt % 2 == 1): mnt += 1
                if mnt == 2**24: mnt //= 2; e += 1
                b32 = ((1 << 31) if a < 0 else 0) | ((e + 127) << 23) | (mnt & (2**23 - 1))
            else: b32 = 0
            if b32 != int(rec["f32_bits"]): fail(rec, "f32 bits %x" % b32)
        elif f == "display_body":
            a, s, prec = int(rec["a"]), rec["s"], min(rec["prec"], 18)
            x = abs(D(a).scaleb(-s).quantize(D(1).scaleb(-prec), rounding=getattr(decimal, rec["mode"])))
            t = format(x, "f")
            if x == 0: t = "0" + ("." + "0" * prec if prec else "")
            if t != rec["body"]: fail(rec, "display body %s" % t)
        elif f == "from_float":
            bits = int(rec["bits"]); w = rec["want"]
            x = struct.unpack("<d", struct.pack("<Q", bits))[0]
            if x != x:
                if w["k"] != "nan": fail(rec, "nan")
            elif x in (float("inf"), float("-inf")):
                if w["k"] != "inf": fail(rec, "inf")
            else:
                d = D(x)  # exact
                qd = d.quantize(D("1e-18"), rounding=decimal.ROUND_HALF_EVEN)
                fr = Fraction(qd)
                c = int(fr * 10**18)
                if fr.denominator == 1 and not in_range(fr.numerator):
                    if fr.numerator == MIN:
                        if w["k"] != "minedge": fail(rec, "minedge expected")
                    elif w["k"] != "overflow": fail(rec, "overflow expected")
                else:
                    if w["k"] != "val": fail(rec, "value expected"); continue
                    cc, ss = int(w["c"]), w["s"]
                    if Fraction(cc, 10**ss) != fr: fail(rec, "value %s" % fr)
                    if cc != 0 and ss > 0 and cc % 10 == 0: fail(rec, "not normalised")
                    if cc == 0 and ss != 0: fail(rec, "zero not normalised")
        else:
            fail(rec, "unknown record kind")
    except Exception as ex:
        fail(rec, "validator exception %r" % ex)

print("oracle validation:", ", ".join("%s=%d" % kv for kv in sorted(count.items())), "| disagreements:", bad)
sys.exit(2 if bad else 0)
