#!/bin/bash
# tools/run_all.sh [tier]  — run every registered check once, print a summary, validate evidence files
TIER="${1:-quick}"
cd /verif
for i in $(seq -w 1 20); do
  id=C$i
  s=$(date +%s.%N)
  out=$(./run $id $TIER 2>&1); rc=$?
  e=$(date +%s.%N)
  nv=$(echo "$out" | grep -c '^VIOLATION'); nk=$(echo "$out" | grep -c '^KNOWN-FINDING')
  printf "%s exit=%d violations=%d known=%d wall=%.1fs\n" $id $rc $nv $nk $(echo "$e - $s" | bc)
done
python3-vt - <<'PY'
import json,jsonschema,glob
sch=json.load(open('/root/.vp/EVIDENCE.schema.json'))
for f in sorted(glob.glob('/verif/evidence/C*.json')):
    try:
        jsonschema.validate(json.load(open(f)),sch)
    except Exception as ex:
        print('INVALID',f,str(ex)[:200])
print('evidence files validated')
PY
