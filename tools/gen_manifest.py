#!/usr/bin/env python3
"""Regenerates /verif/MANIFEST.json (kept under version control; edit the texts here)."""
import json, subprocess
hook = subprocess.run("git -C /repo log --format=%h --grep='verification hooks' -n 1", shell=True, capture_output=True, text=True).stdout.strip()
T = {
 "C01": ("bounded exhaustive enumeration of operand tuples vs. exact reference model",
         "Every operand tuple of an explicitly defined finite space (complete small scope x 361 scale pairs, crossed boundary alphabets, overflow frontier solved for one operand, all 9 integer types in both positions, all reference forms incl. both references to one object, and op-assign) is executed on the real code and compared with exact 512-bit arithmetic; unit tests sample a handful of points, this enumerates the whole bounded space including every alignment and range threshold from both sides.", "5 C01"),
 "C02": ("bounded exhaustive enumeration x 8 rounding modes vs. exact reference model",
         "All operand tuples of the bounded spaces under every thread-default rounding mode, including the result-side frontier (cut-off digits exactly at 0, 1, half-1, half, half+1, 10^s-1 via modular inverses; products beyond 128 bits; the representability limit), compared with a single-rounding reference model defined on the truncated quotient.", "5 C02"),
 "C03": ("bounded exhaustive enumeration x 8 rounding modes vs. exact reference model",
         "All dividend/divisor pairs of the bounded spaces under all 8 modes incl. the rounding frontier for ~150-600 divisors (integer and half boundaries, exact ties, quotients at i128::MAX), integer operands on both sides, operators and checked forms, compared with round(a*10^(18+q)/(b*10^p)) in 512-bit arithmetic.", "5 C03"),
 "C04": ("bounded exhaustive enumeration over (x, y, n, mode) vs. single-rounding reference model",
         "mul_rounded, div_rounded (Decimal/int/int combinations) and quantize over all four branches of the division (equal, scaled dividend narrow and 256-bit, divisor side larger), every n at which a branch changes, 8 modes, plus rejection of every n in 19..=255 on every implementation form; oracle is one rounding of the exact rational.", "5 C04"),
 "C05": ("complete enumeration of the rounding kernel's small scope and of round() over all 256 n x 8 modes",
         "The integer rounding kernel is enumerated completely for |n|<=N, d in +-1..=40, 8 modes (every (mode, sign, q mod 10, remainder class) populated, gated), plus large-operand boundaries; round/checked_round on the coefficient alphabet x 19 scales x all 256 values of n x 8 modes.", "5 C05"),
 "C06": ("exhaustive enumeration of all strings over a 12-symbol alphabet to length 7/8, all 10^8 eight-digit chunks, structured long literals",
         "The grammar is decided completely on every string up to the bound (incl. every malformed tail); the SWAR digit path is enumerated exhaustively; long literals around 10^38, 2^127, 2^128, 2^256 and the wrap band are split at every position with 24 exponent forms; four entry points compared with a hand-written recogniser and 512-bit values.", "5 C06"),
 "C07": ("complete small scope + boundary alphabet, six producers and two consumers per value",
         "Every (coefficient, scale) of the bounded space is printed by all producers (to_string, String::from, Into<String>, format!, Debug, serde_json) and parsed back (from_str, serde_json::from_str); compared with the canonical text built from the reference arithmetic; plus boundary integral parts (word / digit-count boundaries) composed with fractions at every scale.", "5 C07"),
 "C08": ("bounded exhaustive enumeration of operand pairs x 10/14 relations; rkyv clause in two feature builds",
         "All pairs of the bounded spaces incl. equal-value families (every re-expression, +-1 in the last place) and every sign pattern of alignment overflow, wrap-collision partners (c*10^k mod 2^128 / 2^127 / 2^64), for 10 relations on Decimals and 14 per integer type and order; agreement of every enumerated pair with the exact order implies the order laws on the set; archive/deserialize identity and Archived comparisons in the derived and the manual (packed) Archive builds.", "5 C08"),
 "C09": ("complete enumeration of values in every equal-valued representation",
         "All |c|<=N x 19 scales, the complete 2-5-smooth lattice within +-(2^127-1) and the boundary alphabet, each re-expressed with every number of trailing zeros: as_integer_ratio/numerator/denominator/Hash (single value and as slice / Vec element, i.e. hash_slice) against Euclid's reduced fraction and its digest.", "5 C09"),
 "C10": ("bounded exhaustive enumeration of (dividend, divisor) incl. the special-path frontier",
         "All pairs of the bounded spaces plus the frontier of the two special paths (divisor scaling overflows; dividend scaling overflows / stepwise reduction with partial remainders next to M/10) for ~300 divisors x 361 scale pairs, operators, checked forms, %=, integer operands; oracle X - Y*trunc(X/Y) exactly.", "5 C10"),
 "C11": ("complete enumeration of (operand, precision, width, flag set, mode)",
         "Value sweep: alphabet + rounding frontier x precision {absent,0..=40} x 8 modes; layout sweep: operands of all output lengths x 8 precisions x width {absent,0..=60} x 10 flag sets x 8 modes; oracle = single rounding + Rust's documented integer padding rules, bound to Rust itself on every scale-0 case; histories: a format call right after a formatting call whose sink failed part-way.", "5 C11"),
 "C12": ("complete small scope + float-midpoint construction for f64 and f32",
         "All |a|<=N x 19 scales, the coefficient alphabet, and coefficients constructed next to / on every float midpoint (every scale, every binary exponent in reach, a significand alphabet) compared bitwise with exact round-to-nearest-even; the oracle is cross-checked against Rust's correctly rounded parser on every case.", "5 C12"),
 "C13": ("exhaustive over all 2^32 f32 patterns (thorough); structured enumeration of f64 patterns incl. the tie zone",
         "f32 is enumerated exhaustively in the thorough tier; f64 over all 2048 exponent fields x both signs x a significand alphabet plus exact ties t*2^-19 with one-ulp neighbours and range limits; oracle exact m*2^e rounded half-even at the 18th digit.", "5 C13"),
 "C14": ("exhaustive for u8/i8/u16/i16; complete small scope and range-end frontier for all 10 target types",
         "Decimal::from for every value of the 8/16-bit types; T::try_from(Decimal) for 10 types on all |a|<=N x 19 scales and on {MIN-2..MAX+2}*10^k written at scale k with non-integral neighbours; exact error kinds.", "5 C14"),
 "C15": ("complete small scope + boundary alphabet for 18 unary operations/predicates; abs_sub pairs; from_str_radix",
         "floor/ceil/trunc/fract/neg/abs/magnitude/eq_zero/eq_one/is_negative/is_positive and the num-traits methods on every (coefficient, scale) of the bounded space against identities evaluated in 512-bit arithmetic.", "5 C15"),
 "C16": ("complete enumeration of constructed 256-bit dividends on the four wide kernels, certificate oracle, hook-measured branch coverage",
         "The doc(hidden) kernels are driven directly: dividends constructed from (divisor, quotient target, remainder target, factor shape) for every sign combination and all k in 0..=38; oracle a*b = q*m + r, 0<=r<m checked by multiplication; hook counters prove that every branch of the multi-word division (incl. estimate too large by 1 and 2, rhat>=B exits) was reached.", "5 C16"),
 "C17": ("differential enumeration over every macro-generated implementation form",
         "Each of the ~700 trait implementations (9 integer types x 2 positions x 4 reference forms x 11+ operations, op-assign, int/int) is called statically and compared with the canonical by-value Decimal/Decimal call on boundary operands; no model needed.", "5 C17"),
 "C18": ("enumeration of literal programs compiled by the real proc macro and rustc",
         "All literal programs of a bounded grammar are written into a generated crate; accepted ones are compiled and executed, rejected ones must each fail to compile (one located rustc error per invocation) in the dev AND in the release profile (the proc macro is built without overflow checks there); oracle Decimal::from_str of the same text.", "5 C18"),
 "C19": ("stateless exploration of all interleavings of multi-threaded programs under a controlled scheduler on real OS threads",
         "All interleavings (no sampling) of 2-3 thread programs whose steps are public API calls, for all mode pairs/triples and 11 core rounding operation kinds (round, div_rounded, mul_rounded, *, /, quantize, Display with precision, and the four 256-bit-intermediate variants) plus 19 operand-form kinds (checked_round, checked_div, integer operands of / , checked_div and div_rounded in both positions, /=, *=, by-reference forms, Display with width), every schedule on fresh OS threads in a freshly forked process, every observation compared with a per-thread reference model; all script pairs of three steps over {Set(own), Set(HalfEven), Op}; thread termination as a scheduled, joined step (family F6); plus thread-death / spawn-order / no-inheritance histories.", "5 C19"),
 "C20": ("differential enumeration over the build-configuration matrix",
         "One deterministic input list (millions of cases over the C01-C15 operation set) is executed in every configuration of overflow-checks x debug-assertions x opt-level x packed and the complete outcome streams are compared with the baseline configuration.", "5 C20"),
}
NOTE = "Trusted base: the 512-bit reference arithmetic with self-certifying division and the spec functions in engine/fpmc/src/{big,spec,model}.rs (validated against Python's fractions/decimal by oracle_py/validate.py), rustc/cargo 1.95 of this sandbox. Coverage outside the enumerated spaces rests on the boundary-closure argument of DESIGN.md §3.2 and is not claimed."
checks = []
for i in range(1, 21):
    pid = f"C{i:02d}"
    tech, text, ref = T[pid]
    checks.append({
        "property_id": pid,
        "quick_cmd": f"./run {pid} quick",
        "thorough_cmd": f"./run {pid} thorough",
        "evidence_file": f"/verif/evidence/{pid}.json",
        "replay_cmd_template": "./run replay {path}",
        "engine": "fpmc",
        "level_claimed": {"category": "model_checking", "text": text, "design_ref": f"DESIGN.md §{ref}"},
        "level_note": NOTE if pid not in ("C17", "C20", "C18") else "Differential oracle (no numeric model): " + {"C17": "the canonical by-value Decimal/Decimal implementation of the same tree", "C20": "the baseline build configuration of the same tree", "C18": "Decimal::from_str of the same tree; rustc/cargo 1.95 of this sandbox"}[pid] + ". Coverage is the enumerated space only.",
        "technique": tech,
    })
m = {
    "version": 1,
    "setup_cmd": "./run build",
    "hooks": {
        "guard": "--cfg fpdec_verif",
        "enable": "RUSTFLAGS='--cfg fpdec_verif' exported by ./run for every engine build (own target dir /verif/target); declared in [lints.rust] check-cfg of /repo's Cargo.toml files",
        "baseline_off_cmd": "cd /repo && cargo test --workspace --no-fail-fast --offline",
        "source_commits": [hook],
        "add_only": True,
    },
    "engines": [
        {"name": "fpmc", "path": "/verif/engine/fpmc", "serves_properties": [f"C{i:02d}" for i in range(1, 21)], "kind_free_text": "Rust explorers over the real crate: bounded exhaustive input-shape enumeration against a 512-bit reference model (C01-C17), controlled-scheduler schedule exploration on real OS threads (C19), program exploration through rustc (C18), build-configuration exploration (C20)"},
        {"name": "c20drv", "path": "/verif/engine/c20drv", "serves_properties": ["C20"], "kind_free_text": "slim driver built once per build configuration"},
    ],
    "checks": checks,
    "not_applicable": [],
    "notes": "All 20 properties are decided by bounded exhaustive exploration (model checking family); none is handed to another technique. Exit codes: 0 held, 1 violation (VIOLATION lines), 2 machinery failure. Known findings: /verif/KNOWN_FINDINGS.txt.",
}
json.dump(m, open("/verif/MANIFEST.json", "w"), indent=1)
print("written; hook commit", hook)
