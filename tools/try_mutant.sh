#!/bin/bash
# tools/try_mutant.sh <seeded dir> <check id> [tier]  — apply a seeded change to /repo, run one check, undo.
D="$(realpath "$1")"; ID="$2"; TIER="${3:-quick}"
cd /verif; P="$D/patch.diff"; [ -f "$D/patch.rebased.diff" ] && P="$D/patch.rebased.diff"
git -C /repo apply "$P" 2>/tmp/apply.err || { echo "APPLY-FAILED $D: $(cat /tmp/apply.err | head -3)"; git -C /repo checkout -- . ; exit 3; }
out=$(./run "$ID" "$TIER" 2>&1); rc=$?
git -C /repo checkout -- .
git -C /repo reset -q 2>/dev/null
nvio=$(echo "$out" | grep -c '^VIOLATION')
echo "$(basename $D) check=$ID tier=$TIER exit=$rc violations_lines=$nvio"
echo "$out" | grep -A2 '^VIOLATION' | head -12
