#!/bin/bash
# tools/try_mutant.sh <seeded dir> <check id> [tier]
# Runs one check against a seeded change WITHOUT touching /repo: the change is applied to a scratch
# worktree of /repo's HEAD (/tmp/mut/repo) and a copy of the engine pointing at it is built in its own
# target dir; evidence/replays of that run go to /tmp/mut/out. (The registered checks themselves always
# build from /repo; `tools/try_mutant_inplace.sh` applies a change to /repo itself.)
D="$(realpath "$1")"; ID="$2"; TIER="${3:-quick}"
P="$D/patch.diff"; [ -f "$D/patch.rebased.diff" ] && P="$D/patch.rebased.diff"
mkdir -p /tmp/mut/out
if [ ! -d /tmp/mut/repo ]; then git -C /repo worktree add -q --detach /tmp/mut/repo HEAD || exit 3; fi
git -C /tmp/mut/repo checkout -q -f --detach "$(git -C /repo rev-parse HEAD)" && git -C /tmp/mut/repo clean -q -fd -e target
if ! git -C /tmp/mut/repo apply "$P" 2>/tmp/mut/apply.err; then
  # the change was written against the pinned commit; later fix:/hook commits moved its context: 3-way merge it
  if git -C /tmp/mut/repo apply --3way "$P" 2>>/tmp/mut/apply.err && ! git -C /tmp/mut/repo diff --name-only --diff-filter=U | grep -q .; then
    git -C /tmp/mut/repo diff HEAD > "$D/patch.rebased.diff"; git -C /tmp/mut/repo reset -q
  else
    echo "$(basename $D) APPLY-FAILED: $(head -2 /tmp/mut/apply.err | tr '\n' ' ')"; git -C /tmp/mut/repo reset -q --hard; exit 3
  fi
fi
rm -rf /tmp/mut/engine && mkdir -p /tmp/mut/engine && cp -r /verif/engine/. /tmp/mut/engine/ && rm -rf /tmp/mut/engine/target
sed -i 's|path = "/repo/fpdec-core"|path = "/tmp/mut/repo/fpdec-core"|; s|path = "/repo"|path = "/tmp/mut/repo"|' /tmp/mut/engine/fpmc/Cargo.toml /tmp/mut/engine/c20drv/Cargo.toml

( cd /tmp/mut/engine && CARGO_NET_OFFLINE=true CARGO_TARGET_DIR=/tmp/mut/target RUSTFLAGS="--cfg fpdec_verif" cargo build --release --offline ) >/tmp/mut/build.log 2>&1 || { echo "$(basename $D) BUILD-FAILED"; tail -5 /tmp/mut/build.log; exit 2; }
out=$(VERIF_REPO=/tmp/mut/repo VERIF_ENGINE=/tmp/mut/engine VERIF_OUT=/tmp/mut/out /tmp/mut/target/release/fpmc "$ID" "$TIER" 2>&1); rc=$?
git -C /tmp/mut/repo checkout -q -f -- .
nvio=$(echo "$out" | grep -c '^VIOLATION')
echo "$(basename $D) check=$ID tier=$TIER exit=$rc violation_lines=$nvio"
echo "$out" | grep -A2 '^VIOLATION' | head -9
