#!/bin/bash
# tools/try_mutant.sh <seeded dir> <check id> [tier]
# Runs one check against a seeded change WITHOUT touching /repo: the change is applied to a scratch
# worktree of /repo's HEAD ($MUT/repo) and a copy of the engine pointing at it is built in its own
# target dir; evidence/replays of that run go to $MUT/out. (The registered checks themselves always
# build from /repo; `tools/try_mutant_inplace.sh` applies a change to /repo itself.)
MUT="${MUT_DIR:-/tmp/mut}"
D="$(realpath "$1")"; ID="$2"; TIER="${3:-quick}"
P="$D/patch.diff"; [ -f "$D/patch.rebased.diff" ] && P="$D/patch.rebased.diff"
mkdir -p $MUT/out
if [ ! -d $MUT/repo ]; then git -C /repo worktree add -q --detach $MUT/repo HEAD || exit 3; fi
git -C $MUT/repo checkout -q -f --detach "$(git -C /repo rev-parse HEAD)" && git -C $MUT/repo clean -q -fd -e target
if ! git -C $MUT/repo apply "$P" 2>$MUT/apply.err; then
  # the change was written against the pinned commit; later fix:/hook commits moved its context: 3-way merge it
  if git -C $MUT/repo apply --3way "$P" 2>>$MUT/apply.err && ! git -C $MUT/repo diff --name-only --diff-filter=U | grep -q .; then
    git -C $MUT/repo diff HEAD > "$D/patch.rebased.diff"; git -C $MUT/repo reset -q
  else
    echo "$(basename $D) APPLY-FAILED: $(head -2 $MUT/apply.err | tr '\n' ' ')"; git -C $MUT/repo reset -q --hard; exit 3
  fi
fi
rm -rf $MUT/engine && mkdir -p $MUT/engine && cp -r /verif/engine/. $MUT/engine/ && rm -rf $MUT/engine/target
sed -i "s|path = \"/repo/fpdec-core\"|path = \"$MUT/repo/fpdec-core\"|; s|path = \"/repo\"|path = \"$MUT/repo\"|" $MUT/engine/fpmc/Cargo.toml $MUT/engine/c20drv/Cargo.toml $MUT/engine/c06miri/Cargo.toml

( cd $MUT/engine && CARGO_NET_OFFLINE=true CARGO_TARGET_DIR=$MUT/target RUSTFLAGS="--cfg fpdec_verif" cargo build --release --offline ) >$MUT/build.log 2>&1 || { echo "$(basename $D) BUILD-FAILED"; tail -5 $MUT/build.log; exit 2; }
out=$(VERIF_REPO=$MUT/repo VERIF_ENGINE=$MUT/engine VERIF_OUT=$MUT/out $MUT/target/release/fpmc "$ID" "$TIER" 2>&1); rc=$?
git -C $MUT/repo checkout -q -f -- .
nvio=$(echo "$out" | grep -c '^VIOLATION')
echo "$(basename $D) check=$ID tier=$TIER exit=$rc violation_lines=$nvio"
echo "$out" | grep -A2 '^VIOLATION' | head -9
