#!/bin/bash
# confirm_mutant.sh <worktree> <mutant dir> -> prints CONFIRMED/REJECTED with reasons
# Confirms in a scratch worktree: demo passes on pristine, suite passes with mutant, demo fails with mutant.
WT="$1"; MD="$2"; NAME="$(basename $(dirname $(dirname $MD)))_$(basename $MD)"
export CARGO_TARGET_DIR="$WT/target" CARGO_NET_OFFLINE=true
cd "$WT" || exit 2
git checkout -q -- . ; rm -f tests/zz_demo_*.rs
if [ -f "$MD/demo_test.rs" ]; then
  cp "$MD/demo_test.rs" tests/zz_demo_$NAME.rs
  cargo test --offline --test zz_demo_$NAME >/tmp/wt/$NAME.pristine.log 2>&1; P=$?
  git apply "$MD/patch.diff" || { echo "$NAME REJECTED patch does not apply"; git checkout -q -- .; rm -f tests/zz_demo_*.rs; exit 1; }
  cargo test --offline --test zz_demo_$NAME >/tmp/wt/$NAME.mutant.log 2>&1; Mx=$?
  rm -f tests/zz_demo_$NAME.rs
  cargo test --workspace --no-fail-fast --offline >/tmp/wt/$NAME.suite.log 2>&1; S=$?
  git checkout -q -- .
  if [ $P -eq 0 ] && [ $Mx -ne 0 ] && [ $S -eq 0 ]; then echo "$NAME CONFIRMED (demo pristine=pass mutant=fail suite=pass)"; else echo "$NAME REJECTED pristine=$P mutant=$Mx suite=$S"; fi
else
  echo "$NAME MANUAL (no demo_test.rs: $(ls $MD | tr '\n' ' '))"
fi
