#!/bin/bash
# confirm_mutant_rel.sh <worktree> <mutant dir> -> like confirm_mutant.sh, for profile-dependent changes: the demonstration
# is run with `cargo test` (dev) AND `cargo test --release`; it must pass in both on the unchanged tree and fail in at
# least one with the change; the full suite (dev) must pass with the change.
WT="$1"; MD="$2"; NAME="$(basename $WT)_$(basename $MD)"
export CARGO_TARGET_DIR="$WT/target" CARGO_NET_OFFLINE=true
cd "$WT" || exit 2
mkdir -p /tmp/wt
git checkout -q -- . ; rm -f tests/zz_demo_*.rs
cp "$MD/demo_test.rs" tests/zz_demo_$NAME.rs
cargo test --offline --test zz_demo_$NAME >/tmp/wt/$NAME.pristine.dev.log 2>&1; PD=$?
cargo test --offline --release --test zz_demo_$NAME >/tmp/wt/$NAME.pristine.rel.log 2>&1; PR=$?
git apply "$MD/patch.diff" || { echo "$NAME REJECTED patch does not apply"; git checkout -q -- .; rm -f tests/zz_demo_*.rs; exit 1; }
cargo test --offline --test zz_demo_$NAME >/tmp/wt/$NAME.mutant.dev.log 2>&1; MD_=$?
cargo test --offline --release --test zz_demo_$NAME >/tmp/wt/$NAME.mutant.rel.log 2>&1; MR=$?
rm -f tests/zz_demo_$NAME.rs
cargo test --workspace --no-fail-fast --offline >/tmp/wt/$NAME.suite.log 2>&1; S=$?
git checkout -q -- .
if [ $PD -eq 0 ] && [ $PR -eq 0 ] && { [ $MD_ -ne 0 ] || [ $MR -ne 0 ]; } && [ $S -eq 0 ]; then echo "$NAME CONFIRMED (demo pristine dev=pass release=pass; with the change dev=$([ $MD_ -eq 0 ] && echo pass || echo fail) release=$([ $MR -eq 0 ] && echo pass || echo fail); suite=pass)"; else echo "$NAME REJECTED pristine_dev=$PD pristine_rel=$PR mutant_dev=$MD_ mutant_rel=$MR suite=$S"; fi
