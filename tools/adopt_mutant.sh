#!/bin/bash
# tools/adopt_mutant.sh <worktree> <mutant dir> <seeded id>  — confirm a sub-agent's change in its scratch worktree and, if confirmed, keep it under /verif/seeded/<id>
WT="$1"; MD="$2"; ID="$3"
line=$(/verif/tools/confirm_mutant.sh "$WT" "$MD")
echo "$line"
case "$line" in *CONFIRMED*) ;; *) exit 1;; esac
mkdir -p /verif/seeded/$ID && cp "$MD"/patch.diff "$MD"/meta.json /verif/seeded/$ID/ && cp "$MD"/demo* /verif/seeded/$ID/ 2>/dev/null
python3 - "$ID" "$line" "$WT" <<'PY'
import json,sys
id,line,wt=sys.argv[1:4]
p=f'/verif/seeded/{id}/meta.json'; m=json.load(open(p)); m['property']=id.split('-')[0]
rounds={'/wt11/':'round 8: one free-style change per property, the one the author considers hardest to detect mechanically','/wt10/':'round 7: m5 = two cooperating sites that each look fine alone, m6 = only a multi-step use or an unusual representation shows it (the ten properties round 3 had not covered)','/wt5/':'round 4: m7 = only one operand form / integer type / impl broken, m8 = over-eager hardening or fast path on a narrow interior band','/wt2/':'round 2: rare, inconspicuous triggers requested','/wt4/':'round 3: m5 = two cooperating sites that each look fine alone, m6 = only a multi-step use or an unusual representation shows it'}
rn=[v for k,v in rounds.items() if k in wt]
m['origin']='independent sub-agent given only the property text and a scratch worktree'+(' ('+rn[0]+')' if rn else '')
m['base_commit']='current /repo HEAD at the time (with fix: and hook commits)' if rn else 'pinned commit'
m['confirmation']={'status':'CONFIRMED','by':'tools/confirm_mutant.sh in '+wt+': demo on the unchanged tree passes, full suite with the change passes (cargo test --workspace --no-fail-fast --offline), demo with the change fails','line':line}
json.dump(m,open(p,'w'),indent=1)
PY
