#!/usr/bin/env python3
"""Prints the seeded-change table for DESIGN.md §9 from seeded/*/meta.json and seeded/RESULTS*.tsv."""
import json, glob, os, csv, collections
res = collections.defaultdict(list)
for f in sorted(glob.glob('/verif/seeded/RESULTS*.tsv')):
    for row in csv.DictReader(open(f), delimiter='\t'):
        if row['exit'] != '-': res[row['seeded']].append(row)
print("| seeded change | property | what it changes / needs to manifest | caught by (quick tier; violation lines) | missed by |")
print("|---|---|---|---|---|")
for d in sorted(glob.glob('/verif/seeded/C*/')):
    sid = os.path.basename(d.rstrip('/'))
    m = json.load(open(d + 'meta.json'))
    what = (m.get('what_changed') or m.get('what') or '')
    need = m.get('needs_to_manifest') or ''
    if isinstance(what, list): what = ' '.join(what)
    txt = (what.split('. ')[0][:150] + ' / ' + str(need).split('. ')[0][:130]).replace('|', '\\|').replace('\n', ' ')
    caught = [f"{r['check']} ({r['violation_lines']})" for r in res.get(sid, []) if r['exit'] == '1']
    missed = [r['check'] for r in res.get(sid, []) if r['exit'] == '0']
    other = [f"{r['check']}: exit {r['exit']}" for r in res.get(sid, []) if r['exit'] not in ('0', '1')]
    print(f"| {sid} | {m.get('property')} | {txt} | {', '.join(caught) or '-'} | {', '.join(missed + other) or '-'} |")
