#!/usr/bin/env python3
"""Prints the seeded-change table for DESIGN.md §9 from seeded/*/meta.json and seeded/RESULTS*.tsv."""
import json, glob, os, csv, collections
# result files in the order they were produced; the RESULTS-final-* files are the re-run of every seeded change
# against the checks as they stand at the end
files = sorted(f for f in glob.glob('/verif/seeded/RESULTS*.tsv') if 'final' not in f) + sorted(glob.glob('/verif/seeded/RESULTS-final-*.tsv'))
hist = collections.defaultdict(list)   # (seeded, check) -> [(exit, violation_lines)] in file order
for f in files:
    for row in csv.DictReader(open(f), delimiter='\t'):
        if row['exit'] != '-': hist[(row['seeded'], row['check'])].append(row)
res = collections.defaultdict(list)
for (sid, chk), rows in hist.items():
    last = dict(rows[-1])
    last['earlier_miss'] = any(r['exit'] == '0' for r in rows[:-1]) and last['exit'] == '1'
    last['earlier_exit2'] = any(r['exit'] == '2' for r in rows[:-1]) and last['exit'] == '1'
    res[sid].append(last)
print("| seeded change | property | what it changes / needs to manifest | caught by (quick tier; violation lines) | missed by |")
print("|---|---|---|---|---|")
for d in sorted(glob.glob('/verif/seeded/C*/')):
    sid = os.path.basename(d.rstrip('/'))
    m = json.load(open(d + 'meta.json'))
    what = (m.get('what_changed') or m.get('what') or '')
    need = m.get('needs_to_manifest') or ''
    if isinstance(what, list): what = ' '.join(what)
    txt = (what.split('. ')[0][:150] + ' / ' + str(need).split('. ')[0][:130]).replace('|', '\\|').replace('\n', ' ')
    caught = [f"{r['check']} ({r['violation_lines']})" for r in res.get(sid, []) if r['exit'] == '1']
    missed = [r['check'] for r in res.get(sid, []) if r['exit'] == '0'] + [f"{r['check']} (earlier version of the check)" for r in res.get(sid, []) if r['earlier_miss']] + [f"{r['check']} (earlier version: detected but not reproducible on replay, exit 2)" for r in res.get(sid, []) if r['earlier_exit2']]
    other = [f"{r['check']}: exit {r['exit']}" for r in res.get(sid, []) if r['exit'] not in ('0', '1')]
    print(f"| {sid} | {m.get('property')} | {txt} | {', '.join(caught) or '-'} | {', '.join(missed + other) or '-'} |")
