#!/bin/bash
# tools/mutant_matrix.sh [extra check ids...] — run every seeded change against its own property's quick check
# (and the extra checks listed in seeded/<id>/also.txt), append results to seeded/RESULTS.tsv
# usage: tools/mutant_matrix.sh [outfile [seeded ids...]]   (MUT_DIR selects the scratch slot)
cd /verif
out=${1:-seeded/RESULTS.tsv}; shift
if [ $# -gt 0 ]; then list=""; for i in "$@"; do list="$list seeded/$i/"; done; else list=$(ls -d seeded/*/); fi
echo -e "seeded\tcheck\ttier\texit\tviolation_lines\tfirst_site" > $out
for d in $list; do
  id=$(basename $d); prop=$(python3 -c "import json;print(json.load(open('$d/meta.json'))['property'])")
  checks="$prop"; [ -f $d/also.txt ] && checks="$checks $(cat $d/also.txt)"
  for c in $checks; do
    r=$(tools/try_mutant.sh $d $c quick 2>&1)
    line=$(echo "$r" | grep 'check=' | head -1)
    ex=$(echo "$line" | sed -n 's/.*exit=\([0-9]*\).*/\1/p'); nv=$(echo "$line" | sed -n 's/.*violation_lines=\([0-9]*\).*/\1/p')
    site=$(echo "$r" | grep -m1 'site:' | sed 's/^ *site: //')
    [ -z "$line" ] && { ex="-"; nv="-"; site="$(echo "$r" | head -1)"; }
    echo -e "$id\t$c\tquick\t$ex\t$nv\t$site" >> $out
  done
done
echo done >> /tmp/matrix.done
