#!/bin/bash
# tools/try_all.sh <dir with patch.diff> [checks...] — apply a change to a scratch worktree of /repo's HEAD and run
# ALL (or the listed) quick checks against it with one scratch build of the engine. Used for behaviour-preserving
# refactorings (every check must stay silent) and for seeded changes (which checks see it).
MUT="${MUT_DIR:-/tmp/mut}"
D="$(realpath "$1")"; shift
CHECKS="${@:-C01 C02 C03 C04 C05 C06 C07 C08 C09 C10 C11 C12 C13 C14 C15 C16 C17 C18 C19 C20}"
P="$D/patch.diff"; [ -f "$D/patch.rebased.diff" ] && P="$D/patch.rebased.diff"
mkdir -p $MUT/out
[ -d $MUT/repo ] || git -C /repo worktree add -q --detach $MUT/repo HEAD || exit 3
git -C $MUT/repo checkout -q -f --detach "$(git -C /repo rev-parse HEAD)" && git -C $MUT/repo clean -q -fd -e target
git -C $MUT/repo apply "$P" 2>$MUT/apply.err || { echo "$(basename $D) APPLY-FAILED: $(head -2 $MUT/apply.err | tr '\n' ' ')"; exit 3; }
rm -rf $MUT/engine && mkdir -p $MUT/engine && cp -r /verif/engine/. $MUT/engine/ && rm -rf $MUT/engine/target
sed -i "s|path = \"/repo/fpdec-core\"|path = \"$MUT/repo/fpdec-core\"|; s|path = \"/repo\"|path = \"$MUT/repo\"|" $MUT/engine/fpmc/Cargo.toml $MUT/engine/c20drv/Cargo.toml $MUT/engine/c06miri/Cargo.toml
FEATFLAGS=""
bld() { ( cd $MUT/engine && CARGO_NET_OFFLINE=true CARGO_TARGET_DIR=$MUT/target RUSTFLAGS="--cfg fpdec_verif" cargo build --release --offline "$@" ); }
if ! bld >$MUT/build.log 2>&1; then
  # same fallback as ./run: the largest subset of the hidden-helper features that still compiles
  ok="hidden-none"
  for f in hidden-parse hidden-rounded hidden-floor; do try="${ok:+$ok,}$f"; if bld --no-default-features --features "$try" >$MUT/build-$f.log 2>&1; then ok="$try"; fi; done
  if bld --no-default-features --features "$ok" >$MUT/build-fallback.log 2>&1; then
    FEATFLAGS="--no-default-features --features $ok"; echo "$(basename $D) NOTE: engine built with hidden-helper features '${ok}' only ($(grep -m1 -E '^error' $MUT/build.log))"
  else
    echo "$(basename $D) BUILD-FAILED"; grep -E '^error' -A8 $MUT/build.log | head -30; git -C $MUT/repo checkout -q -f -- .; exit 2
  fi
fi
export VERIF_FEATFLAGS="$FEATFLAGS"
for ID in $CHECKS; do
  out=$(VERIF_REPO=$MUT/repo VERIF_ENGINE=$MUT/engine VERIF_OUT=$MUT/out $MUT/target/release/fpmc "$ID" quick 2>&1); rc=$?
  echo "$(basename $D) check=$ID exit=$rc violation_lines=$(echo "$out" | grep -c '^VIOLATION')"
  echo "$out" | grep -A2 -E '^VIOLATION|MACHINERY' | head -7
  if [ "$ID" = C08 ]; then   # the rkyv clause: two feature builds of the scratch engine
    for feat in rkyv rkyv,packed; do
      d=$MUT/target/feat-$(echo $feat | tr , -)
      ( cd $MUT/engine && CARGO_NET_OFFLINE=true CARGO_TARGET_DIR=$d RUSTFLAGS="--cfg fpdec_verif" cargo build --release --offline $(if [ -z "$FEATFLAGS" ]; then echo "--features $feat"; else echo "${FEATFLAGS},$feat"; fi) ) >$d.build.log 2>&1 || { echo "$(basename $D) check=C08R[$feat] BUILD-FAILED"; grep -E '^error' -A8 $d.build.log | head -20; continue; }
      out=$(VERIF_REPO=$MUT/repo VERIF_ENGINE=$MUT/engine VERIF_OUT=$MUT/out $d/release/fpmc C08R quick 2>&1); rc=$?
      echo "$(basename $D) check=C08R[$feat] exit=$rc violation_lines=$(echo "$out" | grep -c '^VIOLATION')"
      echo "$out" | grep -A2 -E '^VIOLATION|MACHINERY' | head -7
    done
  fi
done
git -C $MUT/repo checkout -q -f -- .
