#!/bin/bash
# confirm_mutant_feat.sh <worktree> <mutant dir> "<features>" -> like confirm_mutant.sh, for demonstrations that need cargo features
WT="$1"; MD="$2"; FEAT="$3"; NAME="$(basename $(dirname $(dirname $MD)))_$(basename $MD)"
export CARGO_TARGET_DIR="$WT/target" CARGO_NET_OFFLINE=true
cd "$WT" || exit 2
mkdir -p /tmp/wt
git checkout -q -- . ; rm -f tests/zz_demo_*.rs
cp "$MD/demo_test.rs" tests/zz_demo_$NAME.rs
cargo test --offline --features "$FEAT" --test zz_demo_$NAME >/tmp/wt/$NAME.pristine.log 2>&1; P=$?
git apply "$MD/patch.diff" || { echo "$NAME REJECTED patch does not apply"; git checkout -q -- .; rm -f tests/zz_demo_*.rs; exit 1; }
cargo test --offline --features "$FEAT" --test zz_demo_$NAME >/tmp/wt/$NAME.mutant.log 2>&1; Mx=$?
rm -f tests/zz_demo_$NAME.rs
cargo test --workspace --no-fail-fast --offline >/tmp/wt/$NAME.suite.log 2>&1; S=$?
cargo test --offline --features "$FEAT" >/tmp/wt/$NAME.suite2.log 2>&1; S2=$?
git checkout -q -- .
if [ $P -eq 0 ] && [ $Mx -ne 0 ] && [ $S -eq 0 ] && [ $S2 -eq 0 ]; then echo "$NAME CONFIRMED (features '$FEAT': demo pristine=pass mutant=fail; suite default=pass, suite with features=pass)"; else echo "$NAME REJECTED pristine=$P mutant=$Mx suite=$S suite_feat=$S2"; fi
