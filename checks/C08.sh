#!/bin/bash
# C08 = core explorer (default features) + the rkyv clause in two feature builds
# (derived Archive: --features rkyv; manual Archive: --features rkyv,packed).
TIER="${1:-quick}"
ROOT="${VERIF_ROOT:-/verif}"
OUT="${VERIF_OUT:-$ROOT}"
rc=0
# the two feature builds are started first and run in parallel with the core explorer (separate target dirs)
ff() { if [ -z "${VERIF_FEATFLAGS:-}" ]; then echo "--features $1"; else echo "${VERIF_FEATFLAGS},$1"; fi; }
for feat in rkyv rkyv,packed; do
  d=$ROOT/target/feat-$(echo $feat | tr , -)
  ( cd $ROOT/engine && CARGO_TARGET_DIR=$d cargo build --release --offline $(ff $feat) >$d.build.log 2>&1; echo $? > $d.build.rc ) &
done
$ROOT/target/release/fpmc C08 "$TIER"; r=$?; [ $r -gt $rc ] && rc=$r
wait
for feat in rkyv rkyv,packed; do
  d=$ROOT/target/feat-$(echo $feat | tr , -)
  if [ "$(cat $d.build.rc 2>/dev/null)" != "0" ]; then echo "MACHINERY-FAILURE: build with --features $feat failed" >&2; tail -20 $d.build.log >&2; exit 2; fi
  $d/release/fpmc C08R "$TIER" | sed 's/property=C08R/property=C08/'; r=${PIPESTATUS[0]}; [ $r -gt $rc ] && rc=$r
  mv "$OUT/evidence/C08R.json" "$OUT/evidence/.C08R-$(echo $feat | tr , -).json"
done
python3 - "$OUT" <<'PY'
import json,sys,os
out=sys.argv[1]
ev=json.load(open(f'{out}/evidence/C08.json'))
builds=[]
for name in ('rkyv','rkyv-packed'):
    p=f'{out}/evidence/.C08R-{name}.json'
    e=json.load(open(p)); os.remove(p)
    c=e['coverage']
    builds.append({'features':c.get('feature_set',name),'evaluations':c['evaluations'],'distinct_nontrivial':c['distinct_nontrivial'],'violations':e.get('violations',0),'violation_sites':c.get('violation_sites',[]),'wall_s':e['wall_s'],'samples':c['samples'][:3]})
    ev['coverage']['evaluations']+=c['evaluations']
    ev['violations']=ev.get('violations',0)+e.get('violations',0)
    ev['wall_s']+=e['wall_s']
ev['coverage']['rkyv_builds']=builds
json.dump(ev,open(f'{out}/evidence/C08.json','w'),indent=1)
PY
exit $rc
