//! C06 memory clause under Miri: a reduced exhaustive enumeration of parser inputs is
//! interpreted by Miri, which reports any undefined behaviour (out-of-bounds or
//! misaligned reads, use of uninitialised memory) also when it stays inside a mapping.
use std::str::FromStr;

const SIGMA: [&str; 12] = ["0", "1", "5", "9", "+", "-", ".", "e", "E", " ", "x", "\u{e9}"];

fn one(s: &str, n: &mut u64, ok: &mut u64) {
    *n += 1;
    #[cfg(feature = "hidden-parse")]
    { let a = fpdec_core::str_to_dec(s); if a.is_ok() { *ok += 1; } }
    let b = fpdec::Decimal::from_str(s);
    if b.is_ok() { *ok += 1; }
}

fn main() {
    let maxlen: usize = std::env::args().nth(1).and_then(|x| x.parse().ok()).unwrap_or(3);
    let (mut n, mut ok) = (0u64, 0u64);
    // all strings over SIGMA up to maxlen symbols, bare and behind prefixes that put them after a full 8-byte chunk
    fn rec(cur: &mut String, depth: usize, maxlen: usize, f: &mut dyn FnMut(&str)) {
        f(cur);
        if depth == maxlen { return; }
        for sym in SIGMA { let len = cur.len(); cur.push_str(sym); rec(cur, depth + 1, maxlen, f); cur.truncate(len); }
    }
    let mut all: Vec<String> = Vec::new();
    rec(&mut String::new(), 0, maxlen, &mut |s| all.push(s.to_string()));
    for s in &all {
        one(s, &mut n, &mut ok);
        one(&format!("1234567{}", s), &mut n, &mut ok);
        one(&format!("12345678.{}", s), &mut n, &mut ok);
    }
    // digit strings of every length 1..=41, with a point / exponent / foreign byte at every position
    for len in 1..=41usize {
        let ds = &"12345678901234567890123456789012345678901"[..len];
        one(ds, &mut n, &mut ok);
        for pos in 0..=len {
            one(&format!("{}.{}", &ds[..pos], &ds[pos..]), &mut n, &mut ok);
            one(&format!("{}e{}", &ds[..pos], &ds[pos..]), &mut n, &mut ok);
            one(&format!("{}\u{e9}{}", &ds[..pos], &ds[pos..]), &mut n, &mut ok);
        }
    }
    println!("miri-cases {} accepted {}", n, ok);
}
