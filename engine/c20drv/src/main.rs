//! C20 driver: walks deterministic input lists (reduced versions of the
//! C01-C15 spaces) through fpdec's public API and emits one outcome per case:
//! `value | None | Err(kind) | PANIC` (panic messages are not compared).
//! Built once per build configuration; outputs are compared by fpmc C20.
//!
//! Usage: c20drv hashes <quick|thorough>      -> lines "<chunk> <n_cases> <hash>"
//!        c20drv dump <quick|thorough> <chunk> -> lines "<index>\t<op>\t<input>\t<outcome>"
#![allow(dead_code)]

#[path = "../../fpmc/src/alpha.rs"]
mod alpha;
#[path = "../../fpmc/src/big.rs"]
mod big;
#[path = "../../fpmc/src/frontier.rs"]
mod frontier;
#[path = "../../fpmc/src/forms.rs"]
mod forms;

use alpha::Level;
use fpdec::{CheckedAdd, CheckedDiv, CheckedMul, CheckedRem, CheckedSub, Decimal, DivRounded, MulRounded, Quantize, Round, RoundingMode};
use std::convert::TryFrom;
use std::fmt::Write as _;
use std::str::FromStr;

const CHUNK: u64 = 4096;

const MODES: [RoundingMode; 8] = [
    RoundingMode::Round05Up, RoundingMode::RoundCeiling, RoundingMode::RoundDown, RoundingMode::RoundFloor,
    RoundingMode::RoundHalfDown, RoundingMode::RoundHalfEven, RoundingMode::RoundHalfUp, RoundingMode::RoundUp,
];
const MODE_NAMES: [&str; 8] = ["05Up", "Ceiling", "Down", "Floor", "HalfDown", "HalfEven", "HalfUp", "Up"];

macro_rules! emit {
    ($c:expr, $op:expr, $inp:expr, $out:expr) => { $c.emit($op, $inp, &|| $out) };
}

struct Ctx {
    idx: u64,
    dump: Option<std::collections::BTreeSet<u64>>,
    hash: u64,
    in_chunk: u64,
    out: String,
}

impl Ctx {
    fn emit(&mut self, op: &str, input: &dyn Fn() -> String, outcome: &dyn Fn() -> String) {
        let chunk = self.idx / CHUNK;
        let line_needed = self.dump.as_ref().map(|s| s.contains(&chunk)).unwrap_or(false);
        if self.dump.is_some() && !line_needed {
            // dump mode: cases outside the requested chunks are generated (to keep the numbering) but not executed
            self.idx += 1;
            self.in_chunk += 1;
            if self.in_chunk == CHUNK { self.flush_chunk(); }
            return;
        }
        let outcome = outcome();
        // the hash covers op, input and outcome, so diverging input lists are detected as such
        let inp = input();
        for b in op.bytes().chain([b'\t']).chain(inp.bytes()).chain([b'\t']).chain(outcome.bytes()).chain([b'\n']) {
            self.hash ^= b as u64;
            self.hash = self.hash.wrapping_mul(0x100000001b3);
        }
        if line_needed {
            let _ = writeln!(self.out, "{}\t{}\t{}\t{}", self.idx, op, inp, outcome);
        }
        self.idx += 1;
        self.in_chunk += 1;
        if self.in_chunk == CHUNK { self.flush_chunk(); }
    }
    fn flush_chunk(&mut self) {
        if self.in_chunk == 0 { return; }
        if self.dump.is_none() {
            println!("{} {} {:016x}", (self.idx - 1) / CHUNK, self.in_chunk, self.hash);
        } else if !self.out.is_empty() {
            print!("{}", self.out);
            self.out.clear();
        }
        self.hash = 0xcbf29ce484222325;
        self.in_chunk = 0;
    }
}

fn catch<T>(f: impl FnOnce() -> T) -> Result<T, ()> {
    std::panic::catch_unwind(std::panic::AssertUnwindSafe(f)).map_err(|_| ())
}
fn od(r: Result<Decimal, ()>) -> String { match r { Ok(d) => format!("({},{})", d.coefficient(), d.n_frac_digits()), Err(()) => "PANIC".into() } }
fn oo(r: Result<Option<Decimal>, ()>) -> String { match r { Ok(Some(d)) => format!("Some({},{})", d.coefficient(), d.n_frac_digits()), Ok(None) => "None".into(), Err(()) => "PANIC".into() } }
fn dec(a: i128, p: u8) -> Decimal {
    // scales 0..=18 only (new_raw's debug_assert guards an out-of-contract input)
    Decimal::new_raw(a, p)
}

fn binary(c: &mut Ctx, a: i128, p: u8, b: i128, q: u8, mi: usize, rounded_ns: &[u8]) {
    let (x, y) = (dec(a, p), dec(b, q));
    let inp = || format!("({},{}) ({},{}) {}", a, p, b, q, MODE_NAMES[mi]);
    if mi == 5 {
        // mode independent operations: once
        emit!(c, "Decimal+Decimal", &inp, od(catch(|| x + y)));
        emit!(c, "Decimal-Decimal", &inp, od(catch(|| x - y)));
        emit!(c, "checked_add", &inp, oo(catch(|| x.checked_add(y))));
        emit!(c, "checked_sub", &inp, oo(catch(|| x.checked_sub(y))));
        emit!(c, "checked_mul", &inp, oo(catch(|| x.checked_mul(y))));
        emit!(c, "Decimal%Decimal", &inp, od(catch(|| x % y)));
        emit!(c, "checked_rem", &inp, oo(catch(|| x.checked_rem(y))));
        emit!(c, "+=", &inp, od(catch(|| { let mut z = x; z += y; z })));
        emit!(c, "-=", &inp, od(catch(|| { let mut z = x; z -= y; z })));
        emit!(c, "cmp", &inp, format!("{:?}", catch(|| (x == y, x.partial_cmp(&y)))));
    }
    emit!(c, "Decimal*Decimal", &inp, od(catch(|| x * y)));
    emit!(c, "Decimal/Decimal", &inp, od(catch(|| x / y)));
    emit!(c, "checked_div", &inp, oo(catch(|| x.checked_div(y))));
    emit!(c, "quantize", &inp, od(catch(|| x.quantize(y))));
    for &n in rounded_ns {
        let inp2 = || format!("({},{}) ({},{}) n={} {}", a, p, b, q, n, MODE_NAMES[mi]);
        emit!(c, "mul_rounded", &inp2, od(catch(|| x.mul_rounded(y, n))));
        emit!(c, "div_rounded", &inp2, od(catch(|| x.div_rounded(y, n))));
    }
}

macro_rules! int_ops {
    ($c:expr, $x:expr, $i:expr, $tn:expr, $inp:expr, $mi:expr) => {{
        let (x, i) = ($x, $i);
        if $mi == 5 {
            emit!($c, concat!("Decimal+", $tn), $inp, od(catch(|| x + i)));
            emit!($c, concat!($tn, "-Decimal"), $inp, od(catch(|| i - x)));
            emit!($c, concat!("Decimal*", $tn), $inp, od(catch(|| x * i)));
            emit!($c, concat!($tn, "*Decimal"), $inp, od(catch(|| i * x)));
            emit!($c, concat!("Decimal.checked_mul(", $tn, ")"), $inp, oo(catch(|| x.checked_mul(i))));
            emit!($c, concat!("Decimal.checked_add(", $tn, ")"), $inp, oo(catch(|| x.checked_add(i))));
            emit!($c, concat!("Decimal%", $tn), $inp, od(catch(|| x % i)));
            emit!($c, concat!("Decimal*=", $tn), $inp, od(catch(|| { let mut z = x; z *= i; z })));
        }
        emit!($c, concat!("Decimal/", $tn), $inp, od(catch(|| x / i)));
        emit!($c, concat!($tn, "/Decimal"), $inp, od(catch(|| i / x)));
        emit!($c, concat!("Decimal.div_rounded(", $tn, ",2)"), $inp, od(catch(|| x.div_rounded(i, 2))));
        emit!($c, concat!("Decimal.quantize(", $tn, ")"), $inp, od(catch(|| x.quantize(i))));
    }};
}

fn main() {
    std::panic::set_hook(Box::new(|_| {}));
    let args: Vec<String> = std::env::args().collect();
    let thorough = args.get(2).map(|s| s == "thorough").unwrap_or(false);
    let dump: Option<std::collections::BTreeSet<u64>> = if args.get(1).map(|s| s.as_str()) == Some("dump") { Some(args[3].split(',').map(|x| x.parse::<u64>().unwrap()).collect()) } else { None };
    let dumping = dump.is_some();
    let mut c = Ctx { idx: 0, dump, hash: 0xcbf29ce484222325, in_chunk: 0, out: String::new() };
    let lv = if thorough { Level::Mid } else { Level::Quick };
    let small = alpha::coeffs_small(Level::Quick);
    let tiny: Vec<i128> = { let mut v: Vec<i128> = (-12..=12).collect(); for k in [1u32, 9, 18, 19, 37, 38] { let p = alpha::pow10(k); for d in [-1i128, 0, 1] { v.push(p + d); v.push(-(p + d)); } v.push(i128::MAX / p); v.push(i128::MAX / p + 1); v.push(-(i128::MAX / p)); } v.push(i128::MAX); v.push(-i128::MAX); v.push(i128::MAX - 1); v.sort(); v.dedup(); v };
    let frame = alpha::scale_frame();
    let pairs_q: Vec<(u8, u8)> = if thorough { frame.clone() } else { frame.iter().copied().filter(|&(p, q)| [0u8, 1, 9, 18].contains(&p) && [0u8, 1, 9, 18].contains(&q)).collect() };
    let modes_a: Vec<usize> = if thorough { (0..8).collect() } else { vec![5, 3, 7, 0] };

    // A. Decimal x Decimal arithmetic, all 8 modes
    for &mi in &modes_a {
        RoundingMode::set_default(MODES[mi]);
        let xs: &Vec<i128> = if thorough { &small } else { &tiny };
        for &(p, q) in &pairs_q {
            for &b in &tiny {
                // operands + the add / mul overflow frontier solved for a
                let mut aa: Vec<i128> = xs.clone();
                if mi == 5 { frontier::frontier_add(b, p, q, &mut aa); frontier::frontier_mul_overflow(b, &mut aa); }
                aa.retain(|x| *x != i128::MIN);
                aa.sort(); aa.dedup();
                for a in aa { binary(&mut c, a, p, b, q, mi, &[0, 2, 18]); }
            }
        }
        // rounding frontier for the wide paths
        // both ends of the sorted quotient list: small quotients AND the ones next to 10^38 / 2^127-1, where the
        // rounding step itself (quot + 1) leaves the range (seeded change C02-h1: wraps without overflow checks)
        let qs: Vec<i128> = { let q = frontier::quotients(Level::Quick); let n = q.len(); q.iter().enumerate().filter(|(i, _)| *i < 22 || *i + 18 >= n).map(|(_, v)| *v).collect() };
        for &(p, q) in &[(18u8, 18u8), (9, 18), (18, 1), (0, 18), (10, 10)] {
            // multipliers just above 10^s put products strictly inside (Q*10^s, (Q+1)*10^s): the rounding step then decides
            for &b in &[3i128, 7, -7, 1 << 64, (1i128 << 100) + 277, 10i128.pow(18), i128::MAX / 3, 10i128.pow(18) + 1, 10i128.pow(9) + 1, 101, 11, 10i128.pow(18) + 7] {
                let mut aa = Vec::new();
                frontier::frontier_mul_round(b, (p + q) as u32 - 18, &qs, &mut aa);
                frontier::frontier_div_round(b, (18 + q - p) as u32, 0, &qs, &mut aa);
                aa.retain(|x| *x != i128::MIN);
                aa.sort(); aa.dedup();
                for a in aa { binary(&mut c, a, p, b, q, mi, &[0, 18]); }
            }
        }
    }
    RoundingMode::set_default(RoundingMode::RoundHalfEven);

    // B. Decimal x integer
    for mi in [5usize, 3, 7] {
        RoundingMode::set_default(MODES[mi]);
        for p in [0u8, 1, 2, 9, 18] {
            for &a in &tiny {
                let x = dec(a, p);
                for &v in &[-3i128, 2, 7, 10, 127, 255] { if v >= 0 { let i = v as u8; let inp = || format!("({},{}) {}u8 {}", a, p, v, MODE_NAMES[mi]); int_ops!(c, x, i, "u8", &inp, mi); } }
                for &v in &[i32::MIN as i128, -7, -1, 1, 3, 1000, i32::MAX as i128] { let i = v as i32; let inp = || format!("({},{}) {}i32 {}", a, p, v, MODE_NAMES[mi]); int_ops!(c, x, i, "i32", &inp, mi); }
                for &v in &[1i128, 10, u64::MAX as i128, 10i128.pow(19)] { let i = v as u64; let inp = || format!("({},{}) {}u64 {}", a, p, v, MODE_NAMES[mi]); int_ops!(c, x, i, "u64", &inp, mi); }
                for &v in &[-i128::MAX, -10i128.pow(20), -2, 3, 10i128.pow(37), i128::MAX / 10 + 1, i128::MAX] { let i = v; let inp = || format!("({},{}) {}i128 {}", a, p, v, MODE_NAMES[mi]); int_ops!(c, x, i, "i128", &inp, mi); }
            }
        }
    }
    RoundingMode::set_default(RoundingMode::RoundHalfEven);

    // B2. Decimal x integer over the integer alphabet of the input-shape checks (range ends, powers of ten, the
    // integer's own scaling thresholds floor(M/10^k)+{0,1}, bit-width boundaries) for one unsigned and one signed
    // type of 8, 32/64 and 128 bits: an unchecked scaling of the INTEGER operand panics with overflow checks and
    // wraps without them exactly there (seeded changes C01-m7, C04-m7 were invisible to the hand-picked list of B)
    let mini: Vec<i128> = vec![0, 1, -1, 5, -25, alpha::pow10(17) + 1, -alpha::pow10(18), 999_999_999_999_999_999, i128::MAX / alpha::pow10(18), -(i128::MAX / alpha::pow10(9)), i128::MAX - 1];
    for mi in [5usize, 3] {
        RoundingMode::set_default(MODES[mi]);
        for t in [0usize, 5, 6, 8] {
            let tn = ["u8", "i8", "u16", "i16", "u32", "i32", "u64", "i64", "i128"][t];
            for v in alpha::int_values(t, Level::Quick, &[3, 7, -7, 255, 1000]) {
                if v == i128::MIN { continue; }
                for p in [0u8, 1, 9, 18] {
                    for &a in &mini {
                        let x = dec(a, p);
                        let inp = || format!("({},{}) {}{} {}", a, p, v, tn, MODE_NAMES[mi]);
                        with_int!(t, v, i => {
                            if mi == 5 {
                                emit!(c, &format!("Decimal+{}", tn), &inp, od(catch(|| x + i)));
                                emit!(c, &format!("{}+Decimal", tn), &inp, od(catch(|| i + x)));
                                emit!(c, &format!("Decimal-{}", tn), &inp, od(catch(|| x - i)));
                                emit!(c, &format!("{}-Decimal", tn), &inp, od(catch(|| i - x)));
                                emit!(c, &format!("Decimal.checked_add({})", tn), &inp, oo(catch(|| CheckedAdd::checked_add(x, i))));
                                emit!(c, &format!("{}.checked_sub(Decimal)", tn), &inp, oo(catch(|| CheckedSub::checked_sub(i, x))));
                                emit!(c, &format!("Decimal*{}", tn), &inp, od(catch(|| x * i)));
                                emit!(c, &format!("{}.checked_mul(Decimal)", tn), &inp, oo(catch(|| CheckedMul::checked_mul(i, x))));
                                emit!(c, &format!("Decimal%{}", tn), &inp, od(catch(|| x % i)));
                                emit!(c, &format!("{}%Decimal", tn), &inp, od(catch(|| i % x)));
                                emit!(c, &format!("{}.checked_rem(Decimal)", tn), &inp, oo(catch(|| CheckedRem::checked_rem(i, x))));
                                emit!(c, &format!("{} cmp Decimal", tn), &inp, format!("{:?}", catch(|| (i == x, i.partial_cmp(&x), x.partial_cmp(&i)))));
                            }
                            emit!(c, &format!("Decimal/{}", tn), &inp, od(catch(|| x / i)));
                            emit!(c, &format!("{}/Decimal", tn), &inp, od(catch(|| i / x)));
                            emit!(c, &format!("{}.checked_div(Decimal)", tn), &inp, oo(catch(|| CheckedDiv::checked_div(i, x))));
                            for n in [0u8, 10, 18] {
                                emit!(c, &format!("Decimal.div_rounded({},{})", tn, n), &inp, od(catch(|| x.div_rounded(i, n))));
                                emit!(c, &format!("{}.div_rounded(Decimal,{})", tn, n), &inp, od(catch(|| i.div_rounded(x, n))));
                            }
                            emit!(c, &format!("{}.div_rounded({},5)", tn, tn), &inp, od(catch(|| i.div_rounded(i, 5))));
                        });
                    }
                }
            }
        }
    }
    RoundingMode::set_default(RoundingMode::RoundHalfEven);

    // C. round / checked_round; D. unary; G. integer conversions; E. formatting
    let k = alpha::coeffs(1, 20, lv);
    for mi in 0..8 {
        RoundingMode::set_default(MODES[mi]);
        for &a in &k {
            for p in [0u8, 1, 9, 18] {
                let x = dec(a, p);
                for n in [-128i8, -60, -39, -38, -37, -21, -20, -19, -2, -1, 0, 1, 8, 17, 18, 19, 127] {
                    let inp = || format!("({},{}) n={} {}", a, p, n, MODE_NAMES[mi]);
                    emit!(c, "round", &inp, od(catch(|| x.round(n))));
                    emit!(c, "checked_round", &inp, oo(catch(|| x.checked_round(n))));
                }
                for prec in [0usize, 1, 17, 30] {
                    let inp = || format!("({},{}) .{} {}", a, p, prec, MODE_NAMES[mi]);
                    emit!(c, "format", &inp, catch(|| format!("{:+012.*}", prec, x)).unwrap_or("PANIC".into()));
                }
            }
        }
    }
    RoundingMode::set_default(RoundingMode::RoundHalfEven);
    for &a in &k {
        for p in [0u8, 1, 2, 9, 17, 18] {
            let x = dec(a, p);
            let inp = || format!("({},{})", a, p);
            emit!(c, "neg", &inp, od(catch(|| -x)));
            emit!(c, "abs", &inp, od(catch(|| x.abs())));
            emit!(c, "floor", &inp, od(catch(|| x.floor())));
            emit!(c, "ceil", &inp, od(catch(|| x.ceil())));
            emit!(c, "trunc", &inp, od(catch(|| x.trunc())));
            emit!(c, "fract", &inp, od(catch(|| x.fract())));
            emit!(c, "magnitude", &inp, format!("{:?}", catch(|| x.magnitude())));
            emit!(c, "to_string", &inp, catch(|| x.to_string()).unwrap_or("PANIC".into()));
            emit!(c, "debug", &inp, catch(|| format!("{:?}", x)).unwrap_or("PANIC".into()));
            emit!(c, "f64", &inp, format!("{:?}", catch(|| f64::from(x).to_bits())));
            emit!(c, "f32", &inp, format!("{:?}", catch(|| f32::from(x).to_bits())));
            emit!(c, "i64::try_from", &inp, format!("{:?}", catch(|| i64::try_from(x))));
            emit!(c, "u8::try_from", &inp, format!("{:?}", catch(|| u8::try_from(x))));
            emit!(c, "i128::try_from", &inp, format!("{:?}", catch(|| i128::try_from(x))));
            emit!(c, "u128::try_from", &inp, format!("{:?}", catch(|| u128::try_from(x))));
            emit!(c, "as_integer_ratio", &inp, format!("{:?}", catch(|| { use fpdec::AsIntegerRatio; x.as_integer_ratio() })));
        }
    }
    // F. float -> Decimal
    for be in 0..2048u64 {
        for fr in [0u64, 1, 1 << 51, (1 << 52) - 1, 0x5555555555555, 0x8000000000001, 1 << 33] {
            for s in [0u64, 1] {
                let bits = (s << 63) | (be << 52) | fr;
                let f = f64::from_bits(bits);
                let inp = || format!("f64 {:#018x}", bits);
                emit!(c, "Decimal::try_from(f64)", &inp, format!("{:?}", catch(|| Decimal::try_from(f).map(|d| (d.coefficient(), d.n_frac_digits())))));
            }
        }
    }
    for be in 0..256u32 {
        for fr in [0u32, 1, 1 << 22, (1 << 23) - 1, 0x2aaaaa, 0x400001] {
            for s in [0u32, 1] {
                let bits = (s << 31) | (be << 23) | fr;
                let f = f32::from_bits(bits);
                let inp = || format!("f32 {:#010x}", bits);
                emit!(c, "Decimal::try_from(f32)", &inp, format!("{:?}", catch(|| Decimal::try_from(f).map(|d| (d.coefficient(), d.n_frac_digits())))));
            }
        }
    }
    // E. parsing
    let mut lits: Vec<String> = Vec::new();
    for body in ["0", "1", "-1", "17.5", "+.5", "0.", "007.50", "170141183460469231731687303715884105727", "-170141183460469231731687303715884105728", "340282366920938463463374607431768211456",
        "440282366920938463463374607431768211456", "0.000000000000000001", "0.0000000000000000001", "99999999999999999999.999999999999999999", "1e", "1e+", "e5", "", " 1", "1_0", "\u{663}", "12345678", "1234567890123456789012345"] {
        for e in ["", "e0", "e5", "E-5", "e38", "e39", "e-19", "e005", "e99999999999"] { lits.push(format!("{}{}", body, e)); }
    }
    // a foreign (non-ASCII / non-digit) byte at every offset of an 8-byte window of the chunk reader
    for pos in 0..=17usize {
        for f in ["\u{e9}", "\u{ff18}", "\u{663}", "x", "\u{ff}", ":", "/"] {
            let ds = "12345678901234567";
            lits.push(format!("{}{}{}", &ds[..pos], f, &ds[pos..]));
            lits.push(format!("0.{}{}", &ds[..pos], f));
        }
    }
    for s in &lits {
        let inp = || format!("{:?}", s);
        emit!(c, "from_str", &inp, format!("{:?}", catch(|| Decimal::from_str(s).map(|d| (d.coefficient(), d.n_frac_digits())))));
        #[cfg(feature = "hidden-parse")]
        emit!(c, "str_to_dec", &inp, format!("{:?}", catch(|| fpdec_core::str_to_dec(s))));
    }
    // rejection of n > 18 (a debug_assert-only guard would differ between profiles)
    for n in [19u8, 20, 38, 39, 100, 255] {
        let (x, y) = (dec(151, 2), dec(3, 0));
        let inp = || format!("n={}", n);
        emit!(c, "div_rounded n>18", &inp, od(catch(|| x.div_rounded(y, n))));
        emit!(c, "mul_rounded n>18", &inp, od(catch(|| x.mul_rounded(y, n))));
        emit!(c, "Decimal.div_rounded(i32) n>18", &inp, od(catch(|| x.div_rounded(3i32, n))));
        emit!(c, "i32.div_rounded(Decimal) n>18", &inp, od(catch(|| 3i32.div_rounded(x, n))));
    }
    c.flush_chunk();
    if !dumping { println!("total {}", c.idx); }
}
