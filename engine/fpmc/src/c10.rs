//! C10: remainder satisfies the truncated-division identity exactly.

use crate::alpha::{self, Level};
use crate::big::I512;
use crate::c05::failure_kind;
use crate::model::{self, RemPath};
use crate::pairs::{self, Stages};
use crate::runner::*;
use crate::spec::*;
use crate::{with_form, with_int};
use fpdec::{CheckedRem, RoundingMode};
use serde_json::{json, Value};

// class: kind(2) | path(3) | sx(1) | sy(1) | zero_rem(1) | special(2: 0 general, 1 zero divisor, 2 zero dividend, 3 divisor one) | outcome(1: may-fail)
fn code(kind: u64, path: RemPath, sx: bool, sy: bool, zero: bool, special: u64, fail: bool) -> u64 {
    (kind << 9) | ((path as u64) << 6) | ((sx as u64) << 5) | ((sy as u64) << 4) | ((zero as u64) << 3) | (special << 1) | fail as u64
}

fn pname(p: RemPath) -> &'static str {
    match p {
        RemPath::Equal => "equal scale",
        RemPath::DivisorScaled => "divisor scaled (p>q)",
        RemPath::DivisorOverflow => "divisor scaling overflows (p>q)",
        RemPath::DividendScaled => "dividend scaled (p<q)",
        RemPath::Stepwise => "dividend scaling overflows (p<q)",
    }
}

fn class_name(c: u64) -> String {
    let kind = ["Decimal%Decimal", "Decimal%int", "int%Decimal", "?"][(c >> 9) as usize & 3];
    let special = (c >> 1) & 3;
    if special != 0 { return format!("{}/{}", kind, ["", "zero divisor", "zero dividend", "divisor one"][special as usize]); }
    let path = [RemPath::Equal, RemPath::DivisorScaled, RemPath::DivisorOverflow, RemPath::DividendScaled, RemPath::Stepwise][((c >> 6) & 7) as usize];
    format!("{}/{}/x{}y{}/{}", kind, pname(path), if (c >> 5) & 1 == 1 { "-" } else { "+" }, if (c >> 4) & 1 == 1 { "-" } else { "+" },
        if (c >> 3) & 1 == 1 { "zero remainder" } else { "non-zero remainder" })
}

fn check(l: &mut Local, what: &str, pathname: &str, exp: &Expect, got: Out, fail: Out, mk: &dyn Fn() -> Value) {
    l.evals += 1;
    l.outcome(fnv(got.show().as_bytes()));
    if !accepts(exp, &got, &fail) {
        let kind = failure_kind(exp, &got, &fail);
        l.violation(format!("{} | {} | {}", what, pathname, kind), || {
            (format!("{} model={} impl={} case={}", what, show_expect(exp), got.show(), mk()), mk())
        });
    }
}

fn classify(kind: u64, a: i128, p: u8, b: i128, q: u8, exp: &Expect, path: RemPath) -> (u64, &'static str) {
    if b == 0 { return (code(kind, path, false, false, false, 1, true), "zero divisor"); }
    if a == 0 { return (code(kind, path, false, false, true, 2, false), "zero dividend"); }
    let _ = p;
    if b == alpha::pow10(q as u32) { return (code(kind, path, false, false, false, 3, false), "divisor one"); }
    let zero = match exp {
        Expect::Value { c, .. } => c.is_zero(),
        Expect::Either(inner) => matches!(&**inner, Expect::Value { c, .. } if c.is_zero()),
        _ => false,
    };
    (code(kind, path, a < 0, b < 0, zero, 0, false), pname(path))
}

fn dd_case(a: i128, p: u8, b: i128, q: u8, all_forms: bool, l: &mut Local) {
    let (x, y) = (dec(a, p), dec(b, q));
    let mk = || json!({"k":"dd","a":a.to_string(),"p":p,"b":b.to_string(),"q":q});
    let (exp, path) = model::rem(a, p, b, q);
    let (c, pathname) = classify(0, a, p, b, q, &exp, path);
    if l.class(c) { l.sample(c, json!({"op":"rem","x":[a.to_string(),p],"y":[b.to_string(),q],"model":show_expect(&exp)})); }
    l.distinct += 1;
    let nforms = if all_forms { 4 } else { 1 };
    for form in 0..nforms {
        check(l, "Decimal%Decimal", pathname, &exp, with_form!(form, x, y, |u, v| out_op(|| u % v)), Out::Panic, &mk);
        check(l, "Decimal.checked_rem(Decimal)", pathname, &exp, with_form!(form, x, y, |u, v| out_checked(|| CheckedRem::checked_rem(u, v))), Out::None, &mk);
    }
    if all_forms {
        check(l, "Decimal%=Decimal", pathname, &exp, out_op(|| { let mut z = x; z %= y; z }), Out::Panic, &mk);
    }
}

fn di_case(a: i128, p: u8, t: usize, v: i128, all_forms: bool, l: &mut Local) {
    let x = dec(a, p);
    let tn = alpha::INT_TYPES[t];
    let mk = || json!({"k":"di","a":a.to_string(),"p":p,"t":t,"v":v.to_string()});
    let (mut exp, path) = model::rem(a, p, v, 0);
    let (mut exp2, path2) = model::rem(v, 0, a, p);
    let min_operand = v == i128::MIN;
    if min_operand {
        exp = Expect::Either(Box::new(exp));
        exp2 = Expect::Either(Box::new(exp2));
    }
    let (c, pathname) = classify(1, a, p, v, 0, &exp, path);
    if l.class(c) { l.sample(c, json!({"op":"rem","x":[a.to_string(),p],"int":v.to_string(),"type":tn,"model":show_expect(&exp)})); }
    let (c2, pathname2) = classify(2, v, 0, a, p, &exp2, path2);
    if l.class(c2) { l.sample(c2, json!({"op":"rem","int":v.to_string(),"type":tn,"y":[a.to_string(),p],"model":show_expect(&exp2)})); }
    l.distinct += 2;
    let nforms = if all_forms { 4 } else { 1 };
    for form in 0..nforms {
        with_int!(t, v, i => {
            check(l, &format!("Decimal%{}", tn), pathname, &exp, with_form!(form, x, i, |u, w| out_op(|| u % w)), Out::Panic, &mk);
            let g = with_form!(form, x, i, |u, w| out_checked(|| CheckedRem::checked_rem(u, w)));
            let f = if min_operand && g == Out::Panic { Out::Panic } else { Out::None };
            check(l, &format!("Decimal.checked_rem({})", tn), pathname, &exp, g, f, &mk);
            check(l, &format!("{}%Decimal", tn), pathname2, &exp2, with_form!(form, i, x, |u, w| out_op(|| u % w)), Out::Panic, &mk);
            let g = with_form!(form, i, x, |u, w| out_checked(|| CheckedRem::checked_rem(u, w)));
            let f = if min_operand && g == Out::Panic { Out::Panic } else { Out::None };
            check(l, &format!("{}.checked_rem(Decimal)", tn), pathname2, &exp2, g, f, &mk);
        });
    }
    if all_forms {
        with_int!(t, v, i => {
            check(l, &format!("Decimal%={}", tn), pathname, &exp, out_op(|| { let mut z = x; z %= i; z }), Out::Panic, &mk);
        });
    }
}

pub fn replay(w: &Value) -> Vec<(String, String)> {
    let run = Run::new("C10", Tier::Quick);
    run.seq(|l| match w["k"].as_str().unwrap_or("") {
        "seq" => crate::seq::replay_case(w, l),
        "dd" => dd_case(w["a"].as_str().unwrap().parse().unwrap(), w["p"].as_u64().unwrap() as u8,
            w["b"].as_str().unwrap().parse().unwrap(), w["q"].as_u64().unwrap() as u8, true, l),
        "di" => di_case(w["a"].as_str().unwrap().parse().unwrap(), w["p"].as_u64().unwrap() as u8,
            w["t"].as_u64().unwrap() as usize, w["v"].as_str().unwrap().parse().unwrap(), true, l),
        _ => {}
    });
    run.violations().into_iter().map(|(s, r)| (s, r.detail)).collect()
}

/// Frontier for the special paths: dividends next to multiples of the
/// aligned divisor, dividends whose up-scaling is at the i128 threshold,
/// and (stepwise path) dividends whose partial remainders approach M/10.
fn frontier_rem(b: i128, p: u8, q: u8, out: &mut Vec<i128>) {
    if b == 0 { return; }
    let m = p.max(q);
    let bb = I512::from_i128(b).abs().mul_pow10((m - q) as u32);
    let sa = crate::big::U512::pow10((m - p) as u32);
    // a*10^(m-p) == t*|bb| + r  for small t and r in {0, 1, |bb|-1}
    for t in [0i128, 1, 2, 3, 7, 10, 99, 1000] {
        let base = bb.mul(&I512::from_i128(t));
        for r in [I512::from_i128(0), I512::from_i128(1), I512::from_i128(-1)] {
            let target = base.add(&r);
            let f = pairs::floor_div(&target, &sa);
            for dl in [-1i128, 0, 1] {
                if let Some(x) = pairs::clip(&f.add(&I512::from_i128(dl))) { out.push(x); out.push(-x); }
            }
        }
    }
    if p < q {
        let k = (q - p) as u32;
        let t = M / alpha::pow10(k);
        for v in [t - 1, t, t + 1, t + 2, M, M - 1, M / 2, M / 3, M / 7] { out.push(v); out.push(-v); }
        // dividends a = t*|b| + r with r near M/10, M/20 (stepwise reduction overflow frontier)
        let bm = b.unsigned_abs();
        for r0 in [M / 10 - 1, M / 10, M / 10 + 1, M / 10 + 2, M / 20, M / 20 + 1, M / 100, M / 100 + 1, 1, 5] {
            if (r0 as u128) < bm {
                for t in [0i128, 1, 2] {
                    if let Some(x) = t.checked_mul(b.abs()).and_then(|v| v.checked_add(r0)) { out.push(x); out.push(-x); }
                }
            }
        }
    }
}

pub fn run(tier: Tier) -> i32 {
    let run = Run::new("C10", tier);
    let lv = if tier.thorough() { Level::Thorough } else { Level::Quick };
    let big = alpha::coeffs(1, 20, if tier.thorough() { Level::Mid } else { Level::Quick });
    let st = Stages::new(if tier.thorough() { 60 } else { 30 }, lv, big);
    let none = [RoundingMode::RoundHalfEven];
    let noskip = |_: i128, _: u8, _: i128, _: u8| false;

    let s1 = st.outers_s1();
    let n = st.s1_n;
    pairs::run_pairs(&run, &s1, &none, &|_, _, _, out| out.extend(-n..=n), &noskip, &|a, p, b, q, _, l| dd_case(a, p, b, q, true, l));
    run.stage("S1 small scope", json!({"|a|,|b|<=":n,"scale_pairs":361}));

    let s2a = st.outers_small();
    pairs::run_pairs(&run, &s2a, &none, &|_, _, _, out| out.extend_from_slice(&st.small), &|a, _, b, _| st.in_s1(a, b), &|a, p, b, q, _, l| dd_case(a, p, b, q, false, l));
    run.stage("S2a reduced alphabet x 361 scale pairs", json!({"alphabet":st.small.len()}));

    let s2b = st.outers_big();
    pairs::run_pairs(&run, &s2b, &none, &|_, _, _, out| out.extend_from_slice(&st.big),
        &|a, _, b, _| st.in_s1(a, b) || st.in_small(a, b), &|a, p, b, q, _, l| dd_case(a, p, b, q, false, l));
    run.stage("S2b large alphabet squared x scale frame", json!({"alphabet":st.big.len()}));

    // S3: special paths, divisors from the large alphabet and the divisor alphabet, all 361 pairs
    let mut divs = pairs::divisors(lv);
    for k in 1..=38u32 { let t = M / alpha::pow10(k); divs.extend_from_slice(&[t, t + 1, M / (10 * alpha::pow10(k.min(37))) , M / 20 + 1]); }
    divs.extend_from_slice(&[M / 10 - 1, M / 10, M / 10 + 1, M / 10 + 2, M / 20, M / 20 + 1, M / 5, M / 2, M / 2 + 1, M - 1, M]);
    divs.retain(|d| *d > 0); divs.sort(); divs.dedup();
    let mut s3: Vec<pairs::Outer> = Vec::new();
    for &b in &divs { for sgn in [1i128, -1] { for &(p, q) in &st.all { s3.push((sgn * b, p, q)); } } }
    pairs::run_pairs(&run, &s3, &none, &|b, p, q, out| frontier_rem(b, p, q, out), &|a, _, b, _| st.in_s1(a, b), &|a, p, b, q, _, l| dd_case(a, p, b, q, true, l));
    run.stage("S3 special-path frontier", json!({"divisors":divs.len(),"scale_pairs":361,
        "families":"dividends next to multiples of the aligned divisor; up-scaling thresholds floor(M/10^k)+{-1..2}; partial remainders next to M/10, M/20, M/100"}));

    // integer operands
    let mut items: Vec<(usize, i128, u8)> = Vec::new();
    for t in 0..9 { for v in alpha::int_values(t, lv, &[3, 7, -7, 64, 250, 65535, 999_999_999]) { for p in 0..=18u8 { items.push((t, v, p)); } } }
    run.par_for(&items, || {}, |&(t, v, p), l| {
        let mut xs: Vec<i128> = st.small.clone();
        frontier_rem(v, p, 0, &mut xs);
        xs.retain(|x| *x != i128::MIN);
        xs.sort(); xs.dedup();
        for a in xs { di_case(a, p, t, v, true, l); }
    });
    run.stage("integer operands", json!({"types":9,"operand_tuples":items.len()}));

    // sequence exploration: chained operations from a seed set, results fed back as operands
    {
        let (d, cap) = if tier.thorough() { (3, 12000) } else { (2, 3000) };
        let modes: Vec<RoundingMode> = vec![RoundingMode::RoundHalfEven];
        let (st, tr) = crate::seq::explore(&run, &[crate::seq::SOp::Rem], d, cap, &modes);
        run.stage("sequence exploration (breadth-first over reachable Decimals)", json!({"depth": d, "states": st, "transitions": tr, "modes": modes.len()}));
        run.set_extra("sequence_exploration", json!({"depth": d, "states": st, "transitions": tr, "seeds": crate::seq::seeds().len(), "state_cap_per_level": cap}));
    }

    let mut required: Vec<Vec<u64>> = Vec::new();
    for path in [RemPath::Equal, RemPath::DivisorScaled, RemPath::DivisorOverflow, RemPath::DividendScaled, RemPath::Stepwise] {
        for (sx, sy) in [(false, false), (false, true), (true, false), (true, true)] {
            for zero in [false, true] {
                if path == RemPath::DivisorOverflow && zero { continue; }
                required.push(vec![code(0, path, sx, sy, zero, 0, false)]);
            }
        }
    }
    for kind in 0..3u64 { for special in 1..=3u64 {
        required.push(vec![code(kind, RemPath::Equal, false, false, false, special, special == 1), code(kind, RemPath::Equal, false, false, true, special, false),
            code(kind, RemPath::DivisorScaled, false, false, false, special, special == 1), code(kind, RemPath::DivisorScaled, false, false, true, special, false),
            code(kind, RemPath::DividendScaled, false, false, false, special, special == 1), code(kind, RemPath::DividendScaled, false, false, true, special, false)]);
    }}
    for kind in [1u64, 2] { for zero in [false, true] {
        let mut g = Vec::new();
        for path in [RemPath::Equal, RemPath::DivisorScaled, RemPath::DivisorOverflow, RemPath::DividendScaled, RemPath::Stepwise] { for s in 0..4 { g.push(code(kind, path, s & 1 == 1, s & 2 == 2, zero, 0, false)); } }
        required.push(g);
    }}

    finish(Finish {
        run: &run,
        level: "model_checking",
        rule: "Complete enumeration of (dividend, divisor): S1 all |a|,|b|<=N x 361 scale pairs; S2 boundary alphabets crossed (reduced squared x 361 pairs, large squared x 72-pair frame); S3 frontier of the special paths for ~300 divisors x both signs x 361 scale pairs (dividends next to multiples of the aligned divisor, up-scaling thresholds, partial remainders next to M/10); integer operands of all 9 types in both positions. All tuples distinct by construction (later stages skip earlier ones); every tuple is non-trivial except zero-dividend/divisor-one shortcuts.".into(),
        exhaustive: true,
        assumptions: vec![
            "reference model: X - Y*trunc(X/Y) at scale max(p,q) in 512-bit arithmetic; value compared, scale <= max(p,q)".into(),
            "an overflow signal is accepted only when p<q and a*10^(q-p) leaves i128 (property text); i128::MIN integer operands accepted either way".into(),
        ],
        class_name: &class_name,
        required,
        replay: &replay,
    })
}
