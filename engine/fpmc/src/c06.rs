//! C06: parsing accepts exactly the literal grammar and never yields a wrong value.

use crate::big::{I512, U512};
use crate::runner::*;
use crate::spec::*;
use fpdec::{Decimal, ParseDecimalError};
use serde_json::{json, Value};
use std::convert::TryFrom;
use std::str::FromStr;

/// What the grammar says about a string.
#[derive(Clone, Debug, PartialEq)]
pub enum Lit {
    Empty,
    Invalid,
    /// digits (int+frac, as written), fraction length, exponent (saturated to +-10^7), negative
    Number { digits: String, frac: usize, exp: i64, neg: bool },
}

/// Hand-written recogniser of
/// [+|-](digits[.digits*] | .digits)[(e|E)[+|-]digits]
pub fn recognise(s: &str) -> Lit {
    let b = s.as_bytes();
    if b.is_empty() { return Lit::Empty; }
    let mut i = 0;
    let mut neg = false;
    if b[i] == b'+' || b[i] == b'-' { neg = b[i] == b'-'; i += 1; }
    let int_start = i;
    while i < b.len() && b[i].is_ascii_digit() { i += 1; }
    let int_digits = &s[int_start..i];
    let mut frac_digits = "";
    if i < b.len() && b[i] == b'.' {
        i += 1;
        let fs = i;
        while i < b.len() && b[i].is_ascii_digit() { i += 1; }
        frac_digits = &s[fs..i];
        if int_digits.is_empty() && frac_digits.is_empty() { return Lit::Invalid; }
    } else if int_digits.is_empty() {
        return Lit::Invalid;
    }
    let mut exp: i64 = 0;
    if i < b.len() && (b[i] == b'e' || b[i] == b'E') {
        i += 1;
        let mut eneg = false;
        if i < b.len() && (b[i] == b'+' || b[i] == b'-') { eneg = b[i] == b'-'; i += 1; }
        let es = i;
        while i < b.len() && b[i].is_ascii_digit() {
            if exp < 10_000_000 { exp = exp * 10 + (b[i] - b'0') as i64; }
            i += 1;
        }
        if i == es { return Lit::Invalid; }
        if eneg { exp = -exp; }
    }
    if i != b.len() { return Lit::Invalid; }
    Lit::Number { digits: format!("{}{}", int_digits, frac_digits), frac: frac_digits.len(), exp, neg }
}

#[derive(Clone, Debug)]
pub enum Want {
    /// Err(Empty) exactly
    ErrEmpty,
    /// any Err except Empty
    Err,
    /// exactly this (coefficient, scale)
    Ok(i128, u8),
    /// Ok(value equal to c*10^-s with scale <= 18) or Err (tolerated corner)
    OkValueOrErr(I512, u32),
}

pub struct Classified { pub want: Want, pub class: u64, pub lit: Lit }

// class: grammar(3) | digit bucket(3) | magnitude(3) | exponent class(3)
fn class_code(g: u64, db: u64, mg: u64, ec: u64) -> u64 { (g << 9) | (db << 6) | (mg << 3) | ec }

pub fn class_name(c: u64) -> String {
    let g = ["empty", "invalid", "int", "int.", "int.frac", ".frac", "?", "?"][((c >> 9) & 7) as usize];
    let db = ["0 digits", "1..7 digits", "8 digits", "9..16 digits", "17..38 digits", "39 digits", "40 digits", ">40 digits"][((c >> 6) & 7) as usize];
    let mg = ["zero", "<=2^127-1", "(2^127-1, 2^128)", "wrap band k*2^128+[10^38,2^127)", "beyond", "-", "-", "-"][((c >> 3) & 7) as usize];
    let ec = ["no exponent", "exponent 0", "positive exponent", "negative exponent", "exponent with leading zeros", "huge exponent", "-", "-"][(c & 7) as usize];
    format!("{}/{}/{}/{}", g, db, mg, ec)
}

pub fn classify(s: &str) -> Classified {
    let lit = recognise(s);
    match &lit {
        Lit::Empty => Classified { want: Want::ErrEmpty, class: class_code(0, 0, 0, 0), lit },
        Lit::Invalid => Classified { want: Want::Err, class: class_code(1, 0, 0, 0), lit },
        Lit::Number { digits, frac, exp, neg } => {
            let sig = digits.trim_start_matches('0');
            let nd = sig.len();
            let db = match nd { 0 => 0, 1..=7 => 1, 8 => 2, 9..=16 => 3, 17..=38 => 4, 39 => 5, 40 => 6, _ => 7 };
            // grammar production
            let has_point = s.contains('.');
            let int_len = digits.len() - frac;
            let g = if !has_point { 2 } else if int_len == 0 { 5 } else if *frac == 0 { 3 } else { 4 };
            let has_e = s.contains('e') || s.contains('E');
            let exp_txt = if has_e { s.rsplit(|c| c == 'e' || c == 'E').next().unwrap().trim_start_matches(|c| c == '+' || c == '-') } else { "" };
            let ec = if !has_e { 0 } else if exp.abs() >= 10_000_000 { 5 } else if exp_txt.len() > 1 && exp_txt.starts_with('0') { 4 } else if *exp == 0 { 1 } else if *exp > 0 { 2 } else { 3 };
            // coefficient magnitude (digits as an integer); > 150 digits is certainly beyond
            let coeff = if nd > 150 { None } else { U512::from_dec_str(if sig.is_empty() { "0" } else { sig }) };
            let two127 = U512::pow2(127);
            let two128 = U512::pow2(128);
            let mg = match &coeff {
                None => 4,
                Some(c) if c.is_zero() => 0,
                Some(c) if *c < two127 => 1,
                Some(c) if *c < two128 => 2,
                Some(c) => {
                    let (_, r) = c.divrem(&two128);
                    if nd == 39 && r >= U512::pow10(38) && r < two127 { 3 } else { 4 }
                }
            };
            let class = class_code(g, db, mg, ec);
            let f_after = *frac as i64 - *exp; // fractional digits after applying the exponent
            let zero = sig.is_empty();
            let want = if zero {
                if f_after > 18 {
                    // more than 18 fractional digits (all zero): value 0 has none -> tolerated corner
                    Want::OkValueOrErr(I512::ZERO, 0)
                } else if f_after < -38 {
                    // zero with a net exponent above 38: the scaled coefficient is 0, but 10^e cannot be formed
                    Want::OkValueOrErr(I512::ZERO, 0)
                } else if f_after >= 0 { Want::Ok(0, f_after as u8) } else { Want::Ok(0, 0) }
            } else if f_after > 18 {
                // exceeds 18 digits; only because of trailing zeros? then value or Err
                let tz = digits.len() - digits.trim_end_matches('0').len();
                let tz_in_frac = tz.min(*frac) as i64;
                if f_after - tz_in_frac <= 18 && coeff.is_some() {
                    let strip = (f_after - 18).max(0) as u32; // digits to drop (all zeros)
                    let c = coeff.unwrap();
                    let (cq, cr) = c.divrem(&U512::pow10(strip.min(150)));
                    if cr.is_zero() && cq < two127 {
                        Want::OkValueOrErr(I512::new(*neg, cq), 18)
                    } else { Want::Err }
                } else { Want::Err }
            } else {
                match coeff {
                    None => Want::Err,
                    Some(c) => {
                        let up = if f_after < 0 { (-f_after) as u64 } else { 0 };
                        if up > 40 { Want::Err } else {
                            let scaled = c.mul(&U512::pow10(up as u32));
                            if scaled < two127 {
                                let v = scaled.low_u128() as i128;
                                Want::Ok(if *neg { -v } else { v }, if f_after > 0 { f_after as u8 } else { 0 })
                            } else { Want::Err }
                        }
                    }
                }
            };
            Classified { want, class, lit }
        }
    }
}

fn outcome_of(r: Result<Decimal, ParseDecimalError>) -> Out {
    match r {
        Ok(d) => Out::Val(d.coefficient(), d.n_frac_digits()),
        Err(e) => Out::Err(format!("{:?}", e)),
    }
}

fn judge(want: &Want, got: &Out) -> Option<&'static str> {
    match (want, got) {
        (_, Out::Panic) => Some("panicked"),
        (Want::ErrEmpty, Out::Err(e)) => if e == "Empty" { None } else { Some("wrong error kind for the empty string") },
        (Want::ErrEmpty, _) => Some("accepted the empty string"),
        (Want::Err, Out::Err(e)) => if e == "Empty" { Some("Empty reported for a non-empty string") } else { None },
        (Want::Err, Out::Val(..)) => Some("accepted (returned Ok) where the grammar/range demands Err"),
        (Want::Ok(c, s), Out::Val(gc, gs)) => if c == gc && s == gs { None } else if same_value(&I512::from_i128(*c), *s, &I512::from_i128(*gc), *gs) { Some("right value, wrong fractional digit count") } else { Some("wrong value") },
        (Want::Ok(..), Out::Err(e)) => if e == "Empty" { Some("Empty reported for a non-empty string") } else { Some("rejected a valid literal") },
        (Want::OkValueOrErr(c, s), Out::Val(gc, gs)) => if *gs <= 18 && same_value(c, *s as u8, &I512::from_i128(*gc), *gs) { None } else { Some("wrong value") },
        (Want::OkValueOrErr(..), Out::Err(e)) => if e == "Empty" { Some("Empty reported for a non-empty string") } else { None },
        _ => Some("unexpected outcome kind"),
    }
}

fn show_want(w: &Want) -> String {
    match w { Want::ErrEmpty => "Err(Empty)".into(), Want::Err => "Err(non-Empty)".into(), Want::Ok(c, s) => format!("Ok({},{})", c, s),
        Want::OkValueOrErr(c, s) => format!("Ok(value {}e-{}) or Err", c.to_dec_string(), s) }
}

/// site path class of a literal (for site keys)
fn path_class(cl: &Classified, s: &str) -> String {
    match &cl.lit {
        Lit::Empty => "empty".into(),
        Lit::Invalid => {
            // describe the near miss
            let b = s.as_bytes();
            if s.ends_with(|c| c == 'e' || c == 'E' || c == '+' || c == '-') && s.contains(|c| c == 'e' || c == 'E') { "invalid: exponent without digits".into() }
            else if !s.is_ascii() { "invalid: non-ASCII".into() }
            else if b.iter().all(|c| b"0123456789+-.eE".contains(c)) { "invalid: grammar symbols only".into() }
            else { "invalid: foreign byte".into() }
        }
        Lit::Number { digits, frac, .. } => {
            let n = class_name(cl.class);
            let lead_zero_only_int = { let int = &digits[..digits.len() - frac]; !int.is_empty() && int.bytes().all(|c| c == b'0') };
            format!("{}{}", n, if lead_zero_only_int && *frac == 0 { " (all-zero integer part, no fraction digits)" } else { "" })
        }
    }
}

pub fn case(s: &str, l: &mut Local) {
    let cl = classify(s);
    if l.class(cl.class) { l.sample(cl.class, json!({"input": s, "expected": show_want(&cl.want)})); }
    if !matches!(cl.lit, Lit::Invalid | Lit::Empty) { l.distinct += 1; }
    let entries: [(&str, Out); 3] = [
        ("Decimal::from_str", match catch(|| Decimal::from_str(s)) { Ok(r) => outcome_of(r), Err(()) => Out::Panic }),
        ("Decimal::try_from(&str)", match catch(|| Decimal::try_from(s)) { Ok(r) => outcome_of(r), Err(()) => Out::Panic }),
        ("Decimal::try_from(String)", match catch(|| Decimal::try_from(s.to_string())) { Ok(r) => outcome_of(r), Err(()) => Out::Panic }),
    ];
    for (name, got) in entries.iter() {
        l.evals += 1;
        l.outcome(fnv(got.show().as_bytes()));
        if let Some(kind) = judge(&cl.want, got) {
            let site = format!("{} | {} | {}", name, path_class(&cl, s), kind);
            l.violation(site, || (format!("{}({:?}) expected {} got {}", name, s, show_want(&cl.want), got.show()), json!({"s": s})));
        }
    }
    #[cfg(feature = "hidden-parse")]
    {
    // the core parser: Ok((c, e)) must denote the literal's value; grammar-invalid strings must be Err
    let got = catch(|| fpdec_core::str_to_dec(s));
    l.evals += 1;
    let bad: Option<&'static str> = match (&got, &cl.lit) {
        (Err(()), _) => Some("panicked"),
        (Ok(Err(e)), Lit::Empty) => if *e == ParseDecimalError::Empty { None } else { Some("wrong error kind for the empty string") },
        (Ok(Ok(_)), Lit::Empty) | (Ok(Ok(_)), Lit::Invalid) => Some("accepted (returned Ok) where the grammar/range demands Err"),
        (Ok(Err(e)), Lit::Invalid) => if *e == ParseDecimalError::Empty { Some("Empty reported for a non-empty string") } else { None },
        (Ok(Err(_)), Lit::Number { .. }) => None, // range decisions are from_str's; rejections are judged there
        (Ok(Ok((c, e))), Lit::Number { digits, frac, exp, neg }) => {
            // c * 10^e == (+-digits) * 10^(exp - frac)
            let sig = digits.trim_start_matches('0');
            match U512::from_dec_str(if sig.is_empty() { "0" } else { &sig[..sig.len().min(150)] }) {
                Some(_) if exp.abs() >= 10_000_000 => {
                    // exponent beyond the recogniser's saturation point: only its sign and size class are compared
                    if (*e as i64).abs() >= 1_000_000 && ((*e as i64) < 0) == (*exp < 0) { None } else { Some("wrong value") }
                }
                Some(dv) if sig.len() <= 150 => {
                    let lhs_e = *e as i64;
                    let rhs_e = *exp - *frac as i64;
                    let lo = lhs_e.min(rhs_e);
                    if (lhs_e - lo) > 60 || (rhs_e - lo) > 60 { if dv.is_zero() && *c == 0 { None } else { Some("wrong value") } } else {
                        let lhs = I512::from_i128(*c).mul_pow10((lhs_e - lo) as u32);
                        let rhs = I512::new(*neg, dv).mul_pow10((rhs_e - lo) as u32);
                        if lhs == rhs { None } else { Some("wrong value") }
                    }
                }
                _ => Some("accepted (returned Ok) where the grammar/range demands Err"),
            }
        }
    };
    if let Some(kind) = bad {
        let site = format!("fpdec_core::str_to_dec | {} | {}", path_class(&cl, s), kind);
        l.violation(site, || (format!("str_to_dec({:?}) got {:?}", s, got), json!({"s": s})));
    }
    }
}

pub fn replay(w: &Value) -> Vec<(String, String)> {
    let run = Run::new("C06", Tier::Quick);
    let s = w["s"].as_str().unwrap_or("").to_string();
    if w["miri"].as_bool() == Some(true) {
        // re-running Miri takes minutes; the interpreter is deterministic, the recorded report stands
        return vec![("parser | Miri | undefined behaviour".to_string(), "see the recorded Miri report".to_string())];
    }
    if w["guard"].as_bool() == Some(true) {
        if let (_, Some((kind, what))) = run_guard(Tier::Quick) { run.seq(|l| l.violation(format!("Decimal::from_str | guard page monitor | {}", kind), || (what.clone(), json!({"s": what, "guard": true})))); }
    } else {
        run.seq(|l| case(&s, l));
    }
    run.violations().into_iter().map(|(s, r)| (s, r.detail)).collect()
}

pub const SIGMA: [&str; 12] = ["0", "1", "5", "9", "+", "-", ".", "e", "E", " ", "x", "\u{e9}"];

fn anchors() -> Vec<U512> {
    let mut v = Vec::new();
    for j in 0..=80u32 { v.push(U512::pow10(j)); if j > 0 { v.push(U512::pow10(j).sub(&U512::ONE)); } }
    let two127 = U512::pow2(127);
    let two128 = U512::pow2(128);
    for d in 0..3u64 {
        v.push(two127.sub(&U512::from_u64(d + 1))); v.push(two127.add(&U512::from_u64(d)));
        v.push(two128.sub(&U512::from_u64(d + 1))); v.push(two128.add(&U512::from_u64(d)));
        v.push(U512::pow2(256).sub(&U512::from_u64(d + 1))); v.push(U512::pow2(256).add(&U512::from_u64(d)));
        for k in 1..=2u64 {
            let base = two128.mul_u64(k);
            v.push(base.add(&U512::pow10(38)).add(&U512::from_u64(d)));
            v.push(base.add(&U512::pow10(38)).sub(&U512::from_u64(d + 1)));
            v.push(base.add(&two127).sub(&U512::from_u64(d + 1)));
            v.push(base.add(&two127).add(&U512::from_u64(d)));
            v.push(base.add(&U512::pow10(38).mul_u64(12)).add(&U512::from_u64(d))); // inside the band
        }
    }
    v.push(U512::from_dec_str("123456789012345678901234567890123456789").unwrap());
    v.push(U512::from_dec_str("450000000000000000000000000000000000000").unwrap());
    v.sort(); v.dedup(); v
}

const EXPS: [&str; 44] = ["", "e0", "e1", "E+1", "e-1", "e18", "e-18", "e19", "e-19", "e37", "e38", "e39", "e-40", "e005", "e+05", "e-007", "e00",
    "e0000000000000000000001", "e99999999999999999999", "e-99999999999999999999", "e+", "e-", "e", "E1e1",
    // exponents next to the points where a truncating cast wraps (u8, u16, i32, u32, i64, u64): a wrapped exponent
    // looks like a small, valid one
    "e256", "e257", "e-256", "e65536", "e65537", "e2147483648", "e-2147483648", "e4294967296", "e4294967297", "e4294967314", "e4294967334", "e-4294967296", "e-4294967297",
    "e8589934592", "e9223372036854775808", "e18446744073709551616", "e18446744073709551617", "e-18446744073709551616", "e18446744073709551634", "e340282366920938463463374607431768211456"];

pub fn run(tier: Tier) -> i32 {
    let run = Run::new("C06", tier);
    let th = tier.thorough();

    // (a) all strings over SIGMA up to length L
    let maxlen = if th { 9 } else { 7 };
    // items: prefixes of length 2 (144), each worker extends to all lengths
    let mut prefixes: Vec<String> = Vec::new();
    for a in SIGMA { for b in SIGMA { prefixes.push(format!("{}{}", a, b)); } }
    run.seq(|l| { case("", l); for a in SIGMA { case(a, l); } });
    run.par_for(&prefixes, || {}, |pre, l| {
        fn rec(cur: &mut String, depth: usize, maxlen: usize, l: &mut Local) {
            case(cur, l);
            if depth == maxlen { return; }
            for sym in SIGMA {
                let len = cur.len();
                cur.push_str(sym);
                rec(cur, depth + 1, maxlen, l);
                cur.truncate(len);
            }
        }
        let mut cur = pre.clone();
        rec(&mut cur, 2, maxlen, l);
    });
    run.stage("(a) all strings over the alphabet", json!({"alphabet": SIGMA, "max_length_symbols": maxlen}));

    // (b) all 10^8 eight-digit strings (the SWAR chunk path, exhaustively), and the chunk placed second / third
    let blocks: Vec<u32> = (0..10_000).collect();
    run.par_for(&blocks, || {}, |&blk, l| {
        let mut buf = String::with_capacity(32);
        for low in 0..10_000u32 {
            let v = blk * 10_000 + low;
            buf.clear();
            use std::fmt::Write;
            write!(buf, "{:08}", v).unwrap();
            // fast inline check (full case() would dominate): from_str must give (v, 0)
            let got = catch(|| Decimal::from_str(&buf));
            l.evals += 1;
            let ok = matches!(&got, Ok(Ok(d)) if d.coefficient() == v as i128 && d.n_frac_digits() == 0);
            if !ok { case(&buf, l); }
            if low % 97 == 0 {
                let s2 = format!("11111111{}", buf);
                case(&s2, l);
                let s3 = format!("-0.9999999912345678{}", &buf[..2]);
                case(&s3, l);
                let s4 = format!("{}.{}e-3", &buf[..4], &buf[4..]);
                case(&s4, l);
            }
        }
        l.distinct += 10_000;
        l.class(class_code(2, 2, 1, 0));
    });
    run.stage("(b) all 10^8 eight-digit strings", json!({"strings": 100_000_000u64, "second_third_chunk_variants": "every 97th"}));

    // (c) structured long literals
    let anc = anchors();
    run.par_for(&anc, || {}, |a, l| {
        let ds = a.to_dec_string();
        let mut bodies: Vec<String> = Vec::new();
        for split in 0..=ds.len() {
            let (i, f) = ds.split_at(split);
            for lz in ["", "0", "000000000"] {
                if split == ds.len() { bodies.push(format!("{}{}", lz, i)); bodies.push(format!("{}{}.", lz, i)); }
                else { bodies.push(format!("{}{}.{}", lz, i, f)); }
            }
            if split < ds.len() && th { bodies.push(format!("{}.{}0", i, f)); bodies.push(format!("{}.{}000", i, f)); }
        }
        for body in &bodies {
            for e in EXPS {
                for sign in ["", "-", "+"] {
                    let s = format!("{}{}{}", sign, body, e);
                    case(&s, l);
                }
            }
        }
    });
    run.stage("(c) structured long literals", json!({"anchors": anc.len(), "exponents": EXPS.len(), "signs": 3, "splits": "every integer/fraction split, leading zeros 0/1/9"}));

    // zeros with exponents / trailing-zero corner cases
    run.seq(|l| {
        for z in ["0", "00", "0.", "0.0", ".0", "0.000000000000000000", "0.0000000000000000000", ".00000000000000000000", "000.000"] {
            for e in EXPS { for sign in ["", "-", "+"] { case(&format!("{}{}{}", sign, z, e), l); } }
        }
        for tz in 0..=24usize { for body in ["1.5", "0.1", "12345678.9", "0.000000000000000001"] {
            let s = format!("{}{}", body, "0".repeat(tz));
            for e in ["", "e1", "e5", "e-1", "e19", "e+2"] { case(&format!("{}{}", s, e), l); }
        }}
    });

    // (e) long runs of insignificant zeros and exponents with three and more digits
    let zs: Vec<usize> = (0..=130).collect();
    run.par_for(&zs, || {}, |&z, l| {
        let zeros = "0".repeat(z);
        for d in ["1", "5", "12345", "999999999999999999", "170141183460469231731687303715884105727", "170141183460469231731687303715884105728"] {
            for j in -21i64..=3 {
                let e = z as i64 + j;
                for sign in ["", "-"] {
                    // 0.000..0D e(z+j): value D * 10^(j - len(D))
                    case(&format!("{}0.{}{}e{}", sign, zeros, d, e), l);
                    case(&format!("{}.{}{}E+{}", sign, zeros, d, e), l);
                    // D000..0 e-(z+j)
                    case(&format!("{}{}{}e-{}", sign, d, zeros, e.max(0)), l);
                    // 000..0D (leading zeros are insignificant)
                    case(&format!("{}{}{}", sign, zeros, d), l);
                    case(&format!("{}{}{}.{}e{}", sign, zeros, d, zeros, j), l);
                }
            }
        }
    });
    run.stage("(e) long zero runs and long exponents", json!({"zero_runs": "0..=130", "exponent_offsets": "-21..=3"}));

    // (d) one foreign byte/char at every position of 1..24 digit strings
    let foreign = ["/", ":", ".", "e", "_", " ", "\0", "\u{e9}", "\u{663}", "+", "-", "E", ",", "\u{ff11}"];
    let lens: Vec<usize> = (1..=24).collect();
    run.par_for(&lens, || {}, |&n, l| {
        for pat in ["1234567890123456789012345", "9999999999999999999999999", "0000000000000000000000001"] {
            let ds = &pat[..n];
            for pos in 0..=n {
                for f in foreign {
                    let s = format!("{}{}{}", &ds[..pos], f, &ds[pos..]);
                    case(&s, l);
                    if th { case(&format!("{}.5", s), l); case(&format!("0.{}", s), l); }
                }
            }
        }
    });
    run.stage("(d) foreign byte at every position", json!({"lengths": "1..=24", "foreign": foreign.len()}));

    // memory clause: guard-page monitor in a child process
    let (gcases, gerr) = run_guard(tier);
    let mut guard_machinery: Option<String> = None;
    match gerr {
        None => {}
        Some((kind, what)) if kind.starts_with("guard child failed") => guard_machinery = Some(format!("{}: {}", kind, what)),
        Some((kind, what)) => run.seq(|l| l.violation(format!("Decimal::from_str | guard page monitor | {}", kind), || (format!("{} on input {:?}", kind, what), json!({"s": what, "guard": true})))),
    }
    run.stage("memory clause: guard-page monitor", json!({"cases": gcases, "placements": "ending at a page end followed by PROT_NONE; starting at a page start preceded by PROT_NONE; result compared with the heap-allocated parse"}));
    run.set_extra("guard_page_cases", json!(gcases));
    if gcases == 0 && guard_machinery.is_none() { guard_machinery = Some("guard child reported no cases".into()); }

    // memory clause, second monitor (thorough): a reduced enumeration interpreted by Miri
    if th {
        let engine = std::env::var("VERIF_ENGINE").unwrap_or_else(|_| "/verif/engine".into());
        let tdir = format!("{}/target/c06miri", std::env::var("VERIF_OUT").unwrap_or_else(|_| "/verif".into()));
        let out = std::process::Command::new("cargo").args(if cfg!(feature = "hidden-parse") { vec!["+nightly", "miri", "run", "--offline", "--", "3"] } else { vec!["+nightly", "miri", "run", "--offline", "--no-default-features", "--", "3"] }).current_dir(format!("{}/c06miri", engine))
            .env("CARGO_TARGET_DIR", &tdir).env("CARGO_NET_OFFLINE", "true").env_remove("RUSTFLAGS").output();
        match out {
            Err(e) => guard_machinery = Some(format!("cannot run Miri: {}", e)),
            Ok(o) => {
                let (so, se) = (String::from_utf8_lossy(&o.stdout).to_string(), String::from_utf8_lossy(&o.stderr).to_string());
                let cases = so.lines().filter_map(|l| l.strip_prefix("miri-cases ")).filter_map(|l| l.split(' ').next().and_then(|x| x.parse::<u64>().ok())).next().unwrap_or(0);
                if se.contains("Undefined Behavior") {
                    let msg: String = se.lines().filter(|l| l.contains("Undefined Behavior") || l.contains("-->")).take(4).collect::<Vec<_>>().join(" | ");
                    run.seq(|l| l.violation("parser | Miri | undefined behaviour".to_string(), || (msg.clone(), json!({"s": "", "miri": true}))));
                } else if !o.status.success() || cases == 0 {
                    guard_machinery = Some(format!("Miri run failed: {:?}: {}", o.status, se.chars().rev().take(400).collect::<String>().chars().rev().collect::<String>()));
                }
                run.stage("memory clause: Miri", json!({"cases": cases, "enumeration": "all strings of <= 3 symbols over the alphabet, bare and behind 7- and 9-byte digit prefixes; digit strings of length 1..=41 with '.', 'e', e-acute at every position; debug assertions off"}));
                run.set_extra("miri_cases", json!(cases));
            }
        }
    }

    let mut required: Vec<Vec<u64>> = Vec::new();
    required.push(vec![class_code(0, 0, 0, 0)]);
    required.push(vec![class_code(1, 0, 0, 0)]);
    for g in 2..=5u64 { required.push((0..8u64).flat_map(|db| (0..5u64).flat_map(move |mg| (0..6u64).map(move |ec| class_code(g, db, mg, ec)))).collect()); }
    for db in 0..8u64 { required.push((2..=5u64).flat_map(|g| (0..5u64).flat_map(move |mg| (0..6u64).map(move |ec| class_code(g, db, mg, ec)))).collect()); }
    for mg in 0..5u64 { required.push((2..=5u64).flat_map(|g| (0..8u64).flat_map(move |db| (0..6u64).map(move |ec| class_code(g, db, mg, ec)))).collect()); }
    for ec in 0..6u64 { required.push((2..=5u64).flat_map(|g| (0..8u64).flat_map(move |db| (0..5u64).map(move |mg| class_code(g, db, mg, ec)))).collect()); }

    let rc = finish(Finish {
        run: &run,
        level: "model_checking",
        rule: "Complete enumeration of: (a) every string over the 12-symbol alphabet {0 1 5 9 + - . e E space x e-acute} up to the stated length (the grammar decided completely at that length, every malformed tail included); (b) all 10^8 eight-digit strings (one SWAR chunk, exhaustively) plus second/third-chunk placements; (c) decimal expansions of numeric anchors (10^j, 10^j-1 for j<=80; 2^127, 2^128, 2^256 +-d; the 39-digit wrap band k*2^128+[10^38,2^127)) split at every position into integer/fraction part, with 0/1/9 leading zeros, 24 exponent forms, 3 signs; zero literals with every exponent; trailing-zero families; (d) 14 foreign bytes/chars at every position of 1..24-digit strings. Four entry points per string (from_str, TryFrom<&str>, TryFrom<String>, fpdec_core::str_to_dec). distinct_nontrivial counts grammatical literals (distinct strings by construction within a stage).".into(),
        exhaustive: true,
        assumptions: vec![
            "reference: hand-written recogniser of the grammar; value from 512-bit integer arithmetic".into(),
            "tolerances (property text silent): error kinds other than Empty not compared; more than 18 fractional digits only because of trailing zeros, and all-zero digits with net exponent beyond +-38/18: Ok(right value) or Err".into(),
            "the memory clause (no read outside the string) is monitored by guard pages (both tiers) and by Miri on a reduced enumeration (thorough tier)".into(),
            if cfg!(feature = "hidden-parse") { "the #[doc(hidden)] core parser fpdec_core::str_to_dec is driven as a fourth entry point".to_string() } else { "engine built WITHOUT feature hidden-parse (fpdec_core::str_to_dec changed its signature): only the three public entry points named by the property are driven".to_string() },
        ],
        class_name: &class_name,
        required,
        replay: &replay,
    });
    if let Some(m) = guard_machinery { eprintln!("MACHINERY-FAILURE: {}", m); return 2; }
    rc
}

// ---------------------------------------------------------------------------
// Memory clause monitor: every string is parsed while placed flush against a
// PROT_NONE guard page (once ending at the page end, once starting at a page
// start), in a child process, so that a one-byte over-/under-read is a
// SIGSEGV which the parent reports with the offending case.

static GUARD_CUR: std::sync::atomic::AtomicPtr<u8> = std::sync::atomic::AtomicPtr::new(std::ptr::null_mut());
static GUARD_LEN: std::sync::atomic::AtomicUsize = std::sync::atomic::AtomicUsize::new(0);
static GUARD_COPY: [std::sync::atomic::AtomicU8; 256] = [const { std::sync::atomic::AtomicU8::new(0) }; 256];

extern "C" fn on_segv(_sig: libc::c_int) {
    // async-signal-safe: write the current case as hex to fd 2 and exit
    use std::sync::atomic::Ordering::Relaxed;
    let n = GUARD_LEN.load(Relaxed).min(256);
    let mut buf = [0u8; 600];
    let pre = b"GUARD-SEGV ";
    buf[..pre.len()].copy_from_slice(pre);
    let mut o = pre.len();
    for i in 0..n {
        let b = GUARD_COPY[i].load(Relaxed);
        buf[o] = b"0123456789abcdef"[(b >> 4) as usize];
        buf[o + 1] = b"0123456789abcdef"[(b & 15) as usize];
        o += 2;
    }
    buf[o] = b'\n';
    unsafe { libc::write(2, buf.as_ptr() as *const libc::c_void, o + 1); libc::_exit(77); }
}

struct GuardPages { base: *mut u8, page: usize }

impl GuardPages {
    fn new() -> GuardPages {
        unsafe {
            let page = libc::sysconf(libc::_SC_PAGESIZE) as usize;
            let base = libc::mmap(std::ptr::null_mut(), 3 * page, libc::PROT_READ | libc::PROT_WRITE, libc::MAP_PRIVATE | libc::MAP_ANONYMOUS, -1, 0) as *mut u8;
            assert!(!base.is_null() && base as isize != -1, "mmap");
            assert_eq!(libc::mprotect(base as *mut libc::c_void, page, libc::PROT_NONE), 0);
            assert_eq!(libc::mprotect(base.add(2 * page) as *mut libc::c_void, page, libc::PROT_NONE), 0);
            GuardPages { base, page }
        }
    }
    /// Parse `s` placed (a) ending exactly at the end of the accessible page, (b) starting exactly at its start.
    fn parse_both(&self, s: &str) -> [Out; 2] {
        use std::sync::atomic::Ordering::Relaxed;
        let n = s.len();
        assert!(n <= self.page);
        GUARD_LEN.store(n, Relaxed);
        for (i, b) in s.bytes().enumerate().take(256) { GUARD_COPY[i].store(b, Relaxed); }
        let mut res = [Out::None, Out::None];
        for (k, off) in [self.page * 2 - n, self.page].into_iter().enumerate() {
            unsafe {
                let dst = self.base.add(off);
                std::ptr::copy_nonoverlapping(s.as_ptr(), dst, n);
                let placed = std::str::from_utf8_unchecked(std::slice::from_raw_parts(dst, n));
                res[k] = match catch(|| Decimal::from_str(placed)) { Ok(r) => outcome_of(r), Err(()) => Out::Panic };
            }
        }
        res
    }
}

/// Child process entry: walks the guard case list; prints "guard-cases N mismatches M".
pub fn guard_main(tier: Tier) {
    unsafe {
        let mut sa: libc::sigaction = std::mem::zeroed();
        sa.sa_sigaction = on_segv as usize;
        libc::sigaction(libc::SIGSEGV, &sa, std::ptr::null_mut());
        libc::sigaction(libc::SIGBUS, &sa, std::ptr::null_mut());
    }
    let g = GuardPages::new();
    let mut n = 0u64;
    let mut mism = 0u64;
    let mut one = |s: &str| {
        n += 1;
        let heap = match catch(|| Decimal::from_str(s)) { Ok(r) => outcome_of(r), Err(()) => Out::Panic };
        let r = g.parse_both(s);
        if r[0] != heap || r[1] != heap {
            mism += 1;
            if mism <= 5 { println!("GUARD-MISMATCH {:?}: heap {} end-of-page {} start-of-page {}", s, heap.show(), r[0].show(), r[1].show()); }
        }
    };
    // (a) all strings over SIGMA up to length 5 (quick) / 6 (thorough)
    let maxlen = if tier.thorough() { 6 } else { 5 };
    fn rec(cur: &mut String, depth: usize, maxlen: usize, f: &mut dyn FnMut(&str)) {
        f(cur);
        if depth == maxlen { return; }
        for sym in SIGMA { let len = cur.len(); cur.push_str(sym); rec(cur, depth + 1, maxlen, f); cur.truncate(len); }
    }
    rec(&mut String::new(), 0, maxlen, &mut one);
    // digit strings of every length 1..=48 (every alignment of the 8-byte chunk reader), with and without point/exponent
    for len in 1..=48usize {
        for pat in ["1234567890123456789012345678901234567890123456789", "0000000000000000000000000000000000000000000000001", "9999999999999999999999999999999999999999999999999"] {
            let ds = &pat[..len];
            one(ds);
            one(&format!("-{}", ds));
            for pos in 0..=len { one(&format!("{}.{}", &ds[..pos], &ds[pos..])); one(&format!("{}e{}", &ds[..pos], &ds[pos..])); one(&format!("{}x{}", &ds[..pos], &ds[pos..])); one(&format!("{}\u{e9}{}", &ds[..pos], &ds[pos..])); }
        }
    }
    // (c) anchors
    for a in anchors() {
        let ds = a.to_dec_string();
        for e in EXPS { one(&format!("{}{}", ds, e)); one(&format!("-0.{}{}", ds, e)); }
        for split in (0..=ds.len()).step_by(3) { let (i, f) = ds.split_at(split); one(&format!("{}.{}", i, f)); }
    }
    println!("guard-cases {} mismatches {}", n, mism);
}

/// Parent side: run the guard child, interpret its result. Returns (cases, error description).
pub fn run_guard(tier: Tier) -> (u64, Option<(String, String)>) {
    let exe = std::env::current_exe().expect("current_exe");
    let out = std::process::Command::new(exe).arg("c06-guard").arg(tier.name()).output().expect("run guard child");
    let stdout = String::from_utf8_lossy(&out.stdout).to_string();
    let stderr = String::from_utf8_lossy(&out.stderr).to_string();
    let cases = stdout.lines().filter_map(|l| l.strip_prefix("guard-cases ")).filter_map(|l| l.split(' ').next().and_then(|x| x.parse::<u64>().ok())).next().unwrap_or(0);
    if let Some(l) = stderr.lines().find(|l| l.starts_with("GUARD-SEGV ")) {
        let hex = &l["GUARD-SEGV ".len()..];
        let bytes: Vec<u8> = (0..hex.len() / 2).filter_map(|i| u8::from_str_radix(&hex[2 * i..2 * i + 2], 16).ok()).collect();
        return (cases, Some(("read outside the string (SIGSEGV at a guard page)".into(), String::from_utf8_lossy(&bytes).to_string())));
    }
    if let Some(l) = stdout.lines().find(|l| l.starts_with("GUARD-MISMATCH")) {
        return (cases, Some(("result depends on the memory surrounding the string".into(), l.to_string())));
    }
    if !out.status.success() { return (cases, Some((format!("guard child failed: {:?}", out.status), stderr.chars().take(300).collect()))); }
    (cases, None)
}
