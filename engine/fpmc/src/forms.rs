//! Static dispatch onto the macro-generated trait implementations of the
//! repository: every integer type x operand position x reference form.

/// Evaluate `$body` with `$i` bound to `$v` converted to the integer type
/// with index `$t` (order: u8,i8,u16,i16,u32,i32,u64,i64,i128). The caller
/// guarantees that `$v` fits.
#[macro_export]
macro_rules! with_int {
    ($t:expr, $v:expr, $i:ident => $body:expr) => {
        match $t {
            0 => { let $i = $v as u8; $body }
            1 => { let $i = $v as i8; $body }
            2 => { let $i = $v as u16; $body }
            3 => { let $i = $v as i16; $body }
            4 => { let $i = $v as u32; $body }
            5 => { let $i = $v as i32; $body }
            6 => { let $i = $v as u64; $body }
            7 => { let $i = $v as i64; $body }
            8 => { let $i = $v as i128; $body }
            _ => unreachable!(),
        }
    };
}

/// Reference forms of a binary call `f(x, y)`:
/// 0 = (x, y), 1 = (&x, y), 2 = (x, &y), 3 = (&x, &y).
#[macro_export]
macro_rules! with_form {
    ($form:expr, $x:expr, $y:expr, |$a:ident, $b:ident| $body:expr) => {
        match $form {
            0 => { let $a = $x; let $b = $y; $body }
            1 => { let xx = $x; let $a = &xx; let $b = $y; $body }
            2 => { let yy = $y; let $a = $x; let $b = &yy; $body }
            3 => { let xx = $x; let yy = $y; let $a = &xx; let $b = &yy; $body }
            _ => unreachable!(),
        }
    };
}

pub const FORM_NAMES: [&str; 4] = ["T op U", "&T op U", "T op &U", "&T op &U"];

/// Like `with_int!` but binds two values to the same integer type.
#[macro_export]
macro_rules! with_int2 {
    ($t:expr, $v:expr, $w:expr, $i:ident, $j:ident => $body:expr) => {
        match $t {
            0 => { let $i = $v as u8; let $j = $w as u8; $body }
            1 => { let $i = $v as i8; let $j = $w as i8; $body }
            2 => { let $i = $v as u16; let $j = $w as u16; $body }
            3 => { let $i = $v as i16; let $j = $w as i16; $body }
            4 => { let $i = $v as u32; let $j = $w as u32; $body }
            5 => { let $i = $v as i32; let $j = $w as i32; $body }
            6 => { let $i = $v as u64; let $j = $w as u64; $body }
            7 => { let $i = $v as i64; let $j = $w as i64; $body }
            8 => { let $i = $v as i128; let $j = $w as i128; $body }
            _ => unreachable!(),
        }
    };
}
