//! Operand-pair enumeration for binary operations: complete small scope (S1),
//! crossed boundary alphabets (S2) and result-side frontier construction (S3,
//! see frontier.rs).

use crate::alpha::{self, Level};
pub use crate::frontier::*;
use crate::runner::*;
use fpdec::RoundingMode;
use std::collections::HashSet;

pub type Outer = (i128, u8, u8);

/// Run `f(a, p, b, q, mode, local)` for every outer key (b, p, q), every `a`
/// produced by `inner`, under every mode in `modes` (mode phases: all
/// workers set the same thread default, sweep, barrier, next mode).
/// The inner list is sorted and deduplicated, so within a stage all operand
/// tuples are distinct by construction. `skip` lets a frontier stage drop
/// tuples an earlier stage already enumerated.
pub fn run_pairs(
    run: &Run,
    outers: &[Outer],
    modes: &[RoundingMode],
    inner: &(dyn Fn(i128, u8, u8, &mut Vec<i128>) + Sync),
    skip: &(dyn Fn(i128, u8, i128, u8) -> bool + Sync),
    f: &(dyn Fn(i128, u8, i128, u8, RoundingMode, &mut Local) + Sync),
) {
    for &mode in modes {
        run.par_for(
            outers,
            || RoundingMode::set_default(mode),
            |&(b, p, q), l| {
                let mut xs = Vec::new();
                inner(b, p, q, &mut xs);
                xs.retain(|x| *x != i128::MIN);
                xs.sort();
                xs.dedup();
                for a in xs {
                    if skip(a, p, b, q) {
                        continue;
                    }
                    f(a, p, b, q, mode, l);
                }
            },
        );
    }
}

pub struct Stages {
    pub s1_n: i128,
    pub small: Vec<i128>,
    pub small_set: HashSet<i128>,
    pub big: Vec<i128>,
    pub big_set: HashSet<i128>,
    pub frame: Vec<(u8, u8)>,
    pub all: Vec<(u8, u8)>,
}

impl Stages {
    pub fn new(s1_n: i128, level_small: Level, big: Vec<i128>) -> Stages {
        let small = alpha::coeffs_small(level_small);
        Stages {
            s1_n,
            small_set: small.iter().copied().collect(),
            small,
            big_set: big.iter().copied().collect(),
            big,
            frame: alpha::scale_frame(),
            all: alpha::scale_all(),
        }
    }

    pub fn outers_s1(&self) -> Vec<Outer> {
        let mut v = Vec::new();
        for b in -self.s1_n..=self.s1_n {
            for &(p, q) in &self.all {
                v.push((b, p, q));
            }
        }
        v
    }
    pub fn outers_small(&self) -> Vec<Outer> {
        let mut v = Vec::new();
        for &b in &self.small {
            for &(p, q) in &self.all {
                v.push((b, p, q));
            }
        }
        v
    }
    pub fn outers_big(&self) -> Vec<Outer> {
        let mut v = Vec::new();
        for &b in &self.big {
            for &(p, q) in &self.frame {
                v.push((b, p, q));
            }
        }
        v
    }
    pub fn in_s1(&self, a: i128, b: i128) -> bool {
        a.abs() <= self.s1_n && b.abs() <= self.s1_n
    }
    pub fn in_small(&self, a: i128, b: i128) -> bool {
        self.small_set.contains(&a) && self.small_set.contains(&b)
    }
    pub fn in_big(&self, a: i128, p: u8, b: i128, q: u8) -> bool {
        self.big_set.contains(&a) && self.big_set.contains(&b) && (p == 0 || q == 0 || p == 18 || q == 18)
    }
}
