//! C01: addition and subtraction are exact or signal overflow.

use crate::alpha::{self, Level};
use crate::c05::failure_kind;
use crate::model::{self, AddClass};
use crate::pairs::{self, Stages};
use crate::runner::*;
use crate::spec::*;
use crate::{with_form, with_int};
use fpdec::{CheckedAdd, CheckedSub, Decimal, RoundingMode};
use serde_json::{json, Value};

// class: kind(2: dd,di,id) | sub(1) | signs(2) | diff(6) | cls(3)
fn code(kind: u64, sub: bool, a: i128, b: i128, p: u8, q: u8, cls: AddClass) -> u64 {
    let signs = ((a < 0) as u64) << 1 | (b < 0) as u64;
    let diff = (p as i64 - q as i64 + 18) as u64;
    (kind << 12) | ((sub as u64) << 11) | (signs << 9) | (diff << 3) | cls as u64
}

fn cls_name(c: u64) -> &'static str {
    match c { 0 => "fits", 1 => "result=+-(2^127-1)", 2 => "result one/two past", 3 => "aligned operand past", 4 => "far overflow", _ => "-2^127 edge" }
}

fn class_name(c: u64) -> String {
    let kind = ["Decimal,Decimal", "Decimal,int", "int,Decimal"][(c >> 12) as usize & 3];
    let sub = (c >> 11) & 1 == 1;
    let signs = ["++", "+-", "-+", "--"][((c >> 9) & 3) as usize];
    let diff = ((c >> 3) & 63) as i64 - 18;
    format!("{}({})/signs{}/p-q={}/{}", if sub { "sub" } else { "add" }, kind, signs, diff, cls_name(c & 7))
}

fn check(l: &mut Local, what: &str, form: &str, cls: AddClass, exp: &Expect, got: Out, fail: Out, mk: &dyn Fn() -> Value) {
    l.evals += 1;
    l.outcome(fnv(got.show().as_bytes()));
    if !accepts(exp, &got, &fail) {
        let kind = failure_kind(exp, &got, &fail);
        let site = format!("{} | {} | {}", what, cls_name(cls as u64), kind);
        let form = form.to_string();
        l.violation(site, || {
            (format!("{} form[{}] model={} impl={} case={}", what, form, show_expect(exp), got.show(), mk()), mk())
        });
    }
}

fn dd_case(a: i128, p: u8, b: i128, q: u8, all_forms: bool, l: &mut Local) {
    let (x, y) = (dec(a, p), dec(b, q));
    let mk = || json!({"k":"dd","a":a.to_string(),"p":p,"b":b.to_string(),"q":q});
    for sub in [false, true] {
        let (exp, cls) = model::add_sub(a, p, b, q, sub);
        let c = code(0, sub, a, b, p, q, cls);
        if l.class(c) { l.sample(c, json!({"op": if sub {"sub"} else {"add"}, "x":[a.to_string(),p], "y":[b.to_string(),q], "model": show_expect(&exp)})); }
        l.distinct += 1;
        let nforms = if all_forms { 4 } else { 1 };
        for form in 0..nforms {
            let fname = crate::forms::FORM_NAMES[form];
            if sub {
                check(l, "Decimal-Decimal", fname, cls, &exp, with_form!(form, x, y, |u, v| out_op(|| u - v)), Out::Panic, &mk);
                check(l, "Decimal.checked_sub(Decimal)", fname, cls, &exp, with_form!(form, x, y, |u, v| out_checked(|| CheckedSub::checked_sub(u, v))), Out::None, &mk);
            } else {
                check(l, "Decimal+Decimal", fname, cls, &exp, with_form!(form, x, y, |u, v| out_op(|| u + v)), Out::Panic, &mk);
                check(l, "Decimal.checked_add(Decimal)", fname, cls, &exp, with_form!(form, x, y, |u, v| out_checked(|| CheckedAdd::checked_add(u, v))), Out::None, &mk);
            }
        }
        // both operands are THE SAME OBJECT (x op x through two references to one variable): an implementation may
        // special-case pointer identity, which no pair of separately built operands ever exercises
        if a == b && p == q {
            if sub {
                check(l, "Decimal-Decimal", "&x op &x (one object)", cls, &exp, out_op(|| &x - &x), Out::Panic, &mk);
                check(l, "Decimal.checked_sub(Decimal)", "&x op &x (one object)", cls, &exp, out_checked(|| CheckedSub::checked_sub(&x, &x)), Out::None, &mk);
            } else {
                check(l, "Decimal+Decimal", "&x op &x (one object)", cls, &exp, out_op(|| &x + &x), Out::Panic, &mk);
                check(l, "Decimal.checked_add(Decimal)", "&x op &x (one object)", cls, &exp, out_checked(|| CheckedAdd::checked_add(&x, &x)), Out::None, &mk);
            }
        }
        if all_forms {
            if sub {
                check(l, "Decimal-=Decimal", "assign", cls, &exp, out_op(|| { let mut z = x; z -= y; z }), Out::Panic, &mk);
                check(l, "Decimal-=&Decimal", "assign-ref", cls, &exp, out_op(|| { let mut z = x; z -= &y; z }), Out::Panic, &mk);
            } else {
                check(l, "Decimal+=Decimal", "assign", cls, &exp, out_op(|| { let mut z = x; z += y; z }), Out::Panic, &mk);
                check(l, "Decimal+=&Decimal", "assign-ref", cls, &exp, out_op(|| { let mut z = x; z += &y; z }), Out::Panic, &mk);
            }
        }
    }
}

/// Decimal (a,p) with integer v of type t, both positions.
fn di_case(a: i128, p: u8, t: usize, v: i128, all_forms: bool, l: &mut Local) {
    let x = dec(a, p);
    let tn = alpha::INT_TYPES[t];
    let mk = || json!({"k":"di","a":a.to_string(),"p":p,"t":t,"v":v.to_string()});
    for sub in [false, true] {
        // Decimal op int
        let (exp, cls) = model::add_sub(a, p, v, 0, sub);
        let c = code(1, sub, a, v, p, 0, cls);
        if l.class(c) { l.sample(c, json!({"op": if sub {"sub"} else {"add"}, "x":[a.to_string(),p], "int": v.to_string(), "type": tn, "model": show_expect(&exp)})); }
        // int op Decimal
        let (exp2, cls2) = model::add_sub(v, 0, a, p, sub);
        let c2 = code(2, sub, v, a, 0, p, cls2);
        if l.class(c2) { l.sample(c2, json!({"op": if sub {"sub"} else {"add"}, "int": v.to_string(), "type": tn, "y":[a.to_string(),p], "model": show_expect(&exp2)})); }
        l.distinct += 2;
        let nforms = if all_forms { 4 } else { 1 };
        for form in 0..nforms {
            let fname = crate::forms::FORM_NAMES[form];
            with_int!(t, v, i => {
                if sub {
                    check(l, &format!("Decimal-{}", tn), fname, cls, &exp, with_form!(form, x, i, |u, w| out_op(|| u - w)), Out::Panic, &mk);
                    check(l, &format!("Decimal.checked_sub({})", tn), fname, cls, &exp, with_form!(form, x, i, |u, w| out_checked(|| CheckedSub::checked_sub(u, w))), Out::None, &mk);
                    check(l, &format!("{}-Decimal", tn), fname, cls2, &exp2, with_form!(form, i, x, |u, w| out_op(|| u - w)), Out::Panic, &mk);
                    check(l, &format!("{}.checked_sub(Decimal)", tn), fname, cls2, &exp2, with_form!(form, i, x, |u, w| out_checked(|| CheckedSub::checked_sub(u, w))), Out::None, &mk);
                } else {
                    check(l, &format!("Decimal+{}", tn), fname, cls, &exp, with_form!(form, x, i, |u, w| out_op(|| u + w)), Out::Panic, &mk);
                    check(l, &format!("Decimal.checked_add({})", tn), fname, cls, &exp, with_form!(form, x, i, |u, w| out_checked(|| CheckedAdd::checked_add(u, w))), Out::None, &mk);
                    check(l, &format!("{}+Decimal", tn), fname, cls2, &exp2, with_form!(form, i, x, |u, w| out_op(|| u + w)), Out::Panic, &mk);
                    check(l, &format!("{}.checked_add(Decimal)", tn), fname, cls2, &exp2, with_form!(form, i, x, |u, w| out_checked(|| CheckedAdd::checked_add(u, w))), Out::None, &mk);
                }
            });
        }
        if all_forms {
            with_int!(t, v, i => {
                if sub {
                    check(l, &format!("Decimal-={}", tn), "assign", cls, &exp, out_op(|| { let mut z = x; z -= i; z }), Out::Panic, &mk);
                } else {
                    check(l, &format!("Decimal+={}", tn), "assign", cls, &exp, out_op(|| { let mut z = x; z += i; z }), Out::Panic, &mk);
                }
            });
        }
    }
}

pub fn replay(w: &Value) -> Vec<(String, String)> {
    let run = Run::new("C01", Tier::Quick);
    run.seq(|l| match w["k"].as_str().unwrap_or("") {
        "seq" => crate::seq::replay_case(w, l),
        "dd" => dd_case(
            w["a"].as_str().unwrap().parse().unwrap(), w["p"].as_u64().unwrap() as u8,
            w["b"].as_str().unwrap().parse().unwrap(), w["q"].as_u64().unwrap() as u8, true, l),
        "di" => di_case(
            w["a"].as_str().unwrap().parse().unwrap(), w["p"].as_u64().unwrap() as u8,
            w["t"].as_u64().unwrap() as usize, w["v"].as_str().unwrap().parse().unwrap(), true, l),
        _ => {}
    });
    run.violations().into_iter().map(|(s, r)| (s, r.detail)).collect()
}

pub fn run(tier: Tier) -> i32 {
    let run = Run::new("C01", tier);
    let lv = if tier.thorough() { Level::Thorough } else { Level::Quick };
    let big = alpha::coeffs(if tier.thorough() { 2 } else { 1 }, if tier.thorough() { 50 } else { 20 }, if tier.thorough() { Level::Mid } else { Level::Quick });
    let st = Stages::new(if tier.thorough() { 40 } else { 25 }, lv, big);
    let none = [RoundingMode::RoundHalfEven];
    let noskip = |_: i128, _: u8, _: i128, _: u8| false;

    // S1: complete small scope, all forms
    let s1 = st.outers_s1();
    let n = st.s1_n;
    pairs::run_pairs(&run, &s1, &none, &|_, _, _, out| out.extend(-n..=n), &noskip, &|a, p, b, q, _, l| dd_case(a, p, b, q, true, l));
    run.stage("S1 small scope", json!({"|a|,|b|<=":n,"scale_pairs":361,"forms":"4 reference forms + op-assign, operators and checked"}));

    // S2a: reduced alphabet x itself x all 361 scale pairs
    let s2a = st.outers_small();
    pairs::run_pairs(&run, &s2a, &none, &|_, _, _, out| out.extend_from_slice(&st.small), &|a, _, b, _| st.in_s1(a, b), &|a, p, b, q, _, l| dd_case(a, p, b, q, false, l));
    run.stage("S2a reduced alphabet x 361 scale pairs", json!({"alphabet":st.small.len()}));

    // S2b: large alphabet x itself x scale frame
    let s2b = st.outers_big();
    pairs::run_pairs(&run, &s2b, &none, &|_, _, _, out| out.extend_from_slice(&st.big),
        &|a, _, b, _| st.in_s1(a, b) || st.in_small(a, b), &|a, p, b, q, _, l| dd_case(a, p, b, q, false, l));
    run.stage("S2b large alphabet x scale frame", json!({"alphabet":st.big.len(),"scale_pairs":st.frame.len()}));

    // S3: overflow frontier solved for a, for every b of the reduced alphabet and every scale pair
    pairs::run_pairs(&run, &s2a, &none, &|b, p, q, out| pairs::frontier_add(b, p, q, out),
        &|a, p, b, q| st.in_s1(a, b) || st.in_small(a, b) || st.in_big(a, p, b, q), &|a, p, b, q, _, l| dd_case(a, p, b, q, true, l));
    run.stage("S3 overflow frontier", json!({"targets":"+-2^127+{-3..2}, 0, +-1; alignment thresholds floor(M/10^k)+{-1..2}"}));

    // integer operands: each type's values x Decimal alphabet x all scales
    let extra: Vec<i128> = Vec::new();
    let mut items: Vec<(usize, i128, u8)> = Vec::new();
    for t in 0..9 {
        for v in alpha::int_values(t, if tier.thorough() { Level::Thorough } else { Level::Quick }, &extra) {
            for p in 0..=18u8 { items.push((t, v, p)); }
        }
    }
    run.par_for(&items, || {}, |&(t, v, p), l| {
        let mut xs: Vec<i128> = st.small.clone();
        pairs::frontier_add(v, p, 0, &mut xs);
        // frontier_add solved for the left operand at scale p with right (v, 0)
        xs.retain(|x| *x != i128::MIN);
        xs.sort(); xs.dedup();
        for a in xs { di_case(a, p, t, v, true, l); }
    });
    run.stage("integer operands", json!({"types":9,"operand_tuples":items.len(),"forms":"4 reference forms, both positions, op-assign, checked"}));

    // sequence exploration: chained operations from a seed set, results fed back as operands
    {
        let (d, cap) = if tier.thorough() { (3, 12000) } else { (2, 3000) };
        let modes: Vec<RoundingMode> = vec![RoundingMode::RoundHalfEven];
        let (st, tr) = crate::seq::explore(&run, &[crate::seq::SOp::Add, crate::seq::SOp::Sub], d, cap, &modes);
        run.stage("sequence exploration (breadth-first over reachable Decimals)", json!({"depth": d, "states": st, "transitions": tr, "modes": modes.len()}));
        run.set_extra("sequence_exploration", json!({"depth": d, "states": st, "transitions": tr, "seeds": crate::seq::seeds().len(), "state_cap_per_level": cap}));
    }

    // required classes (any sign pair within a group)
    let mut required: Vec<Vec<u64>> = Vec::new();
    let signs = [(1i128, 1i128), (1, -1), (-1, 1), (-1, -1)];
    for sub in [false, true] {
        for diff in -18i64..=18 {
            let (p, q) = if diff >= 0 { (diff as u8, 0u8) } else { (0u8, (-diff) as u8) };
            for cls in [AddClass::Fits, AddClass::AtLimit, AddClass::OnePast] {
                required.push(signs.iter().map(|&(a, b)| code(0, sub, a, b, p, q, cls)).collect());
            }
            if diff != 0 {
                required.push(signs.iter().map(|&(a, b)| code(0, sub, a, b, p, q, AddClass::OperandPast)).collect());
            }
        }
        required.push(signs.iter().map(|&(a, b)| code(0, sub, a, b, 0, 0, AddClass::Far)).collect());
        for kind in [1u64, 2] {
            for cls in [AddClass::Fits, AddClass::OnePast, AddClass::OperandPast] {
                let mut g = Vec::new();
                for pp in 1..=18u8 { for &(a, b) in &signs { g.push(code(kind, sub, a, b, if kind == 1 { pp } else { 0 }, if kind == 1 { 0 } else { pp }, cls)); } }
                required.push(g);
            }
        }
    }

    finish(Finish {
        run: &run,
        level: "model_checking",
        rule: "Complete enumeration of operand tuples (a,p,b,q): S1 all |a|,|b|<=N x 361 scale pairs; S2a reduced boundary alphabet squared x 361 pairs; S2b large alphabet squared x 72-pair scale frame; S3 overflow frontier solved for a (sum/difference on, one and two units either side of +-2^127; alignment thresholds) for every b and scale pair; integer operands: range ends, small values and powers of ten of all 9 types x alphabet x 19 scales x both positions. Later stages skip tuples of earlier ones, inner lists are deduplicated: every counted tuple is distinct; each tuple is evaluated for add and sub (distinct_nontrivial counts (tuple, op)); evaluations counts every call form.".into(),
        exhaustive: true,
        assumptions: vec![
            "reference model: exact 512-bit integer arithmetic at scale max(p,q)".into(),
            "a coefficient of exactly -2^127 (inside i128, outside Decimal::MIN..=MAX) is accepted either as value or as overflow signal".into(),
        ],
        class_name: &class_name,
        required,
        replay: &replay,
    })
}
