//! C13: f64 / f32 -> Decimal yields the nearest 18-digit Decimal or a precise error.

use crate::big::{I512, U512};
use crate::runner::*;
use crate::spec::{self, mode_name, RemClass, ALL_MODES};
use fpdec::{Decimal, DecimalError, RoundingMode};
use fpdec_core::verif_cov;
use serde_json::{json, Value};
use std::convert::TryFrom;

#[derive(Clone, Debug, PartialEq)]
pub enum Want { Nan, Inf, Overflow, Val(i128, u8), MinEdge }

/// Decode to (negative, significand, exponent): value = m * 2^e.
fn decode64(b: u64) -> (bool, u64, i32, bool, bool) {
    let neg = b >> 63 == 1;
    let be = ((b >> 52) & 0x7ff) as i32;
    let fr = b & ((1u64 << 52) - 1);
    if be == 0x7ff { return (neg, 0, 0, fr != 0, fr == 0); }
    if be == 0 { (neg, fr, -1074, false, false) } else { (neg, fr | (1u64 << 52), be - 1075, false, false) }
}
fn decode32(b: u32) -> (bool, u64, i32, bool, bool) {
    let neg = b >> 31 == 1;
    let be = ((b >> 23) & 0xff) as i32;
    let fr = (b & ((1u32 << 23) - 1)) as u64;
    if be == 0xff { return (neg, 0, 0, fr != 0, fr == 0); }
    if be == 0 { (neg, fr, -149, false, false) } else { (neg, fr | (1u64 << 23), be - 150, false, false) }
}

/// Model: exact value m*2^e -> nearest Decimal with <= 18 fractional digits
/// (half-even), trailing zeros stripped. Returns (want, rounding class).
pub fn model(neg: bool, m: u64, e: i32, nan: bool, inf: bool) -> (Want, Option<RemClass>) {
    if nan { return (Want::Nan, None); }
    if inf { return (Want::Inf, None); }
    if m == 0 { return (Want::Val(0, 0), None); }
    if e >= 0 {
        if e > 140 { return (Want::Overflow, None); }
        let v = U512::from_u64(m).shl(e as u32);
        let lim = U512::pow2(127);
        if v < lim { let c = v.low_u128() as i128; return (Want::Val(if neg { -c } else { c }, 0), None); }
        if v == lim && neg { return (Want::MinEdge, None); }
        return (Want::Overflow, None);
    }
    // value = m / 2^k; coefficient at scale 18 = round_half_even(m * 10^18 / 2^k)
    let k = (-e) as u32;
    let tz = m.trailing_zeros().min(k);
    let (m2, k2) = (m >> tz, k - tz);
    if k2 == 0 { let c = m2 as i128; return (Want::Val(if neg { -c } else { c }, 0), None); }
    if k2 > 400 { return (Want::Val(0, 0), Some(RemClass::BelowHalf)); }
    let num = I512::new(neg, U512::from_u64(m2).mul(&U512::pow10(18)));
    let den = if k2 < 500 { U512::pow2(k2) } else { unreachable!() };
    let r = spec::round_div(&num, &den, RoundingMode::RoundHalfEven);
    let (c, s) = spec::normalize(&r.value, 18);
    (Want::Val(c.to_i128().unwrap(), s), Some(r.rem_class))
}

fn show(r: &Result<Decimal, DecimalError>) -> String {
    match r { Ok(d) => format!("Ok(({},{}))", d.coefficient(), d.n_frac_digits()), Err(e) => format!("Err({:?})", e) }
}

fn judge(want: &Want, got: &Result<Result<Decimal, DecimalError>, ()>) -> Option<&'static str> {
    match (want, got) {
        (_, Err(())) => Some("panicked"),
        (Want::Nan, Ok(Err(DecimalError::NotANumber))) => None,
        (Want::Inf, Ok(Err(DecimalError::InfiniteValue))) => None,
        (Want::Overflow, Ok(Err(DecimalError::InternalOverflow))) => None,
        (Want::MinEdge, Ok(Err(DecimalError::InternalOverflow))) => None,
        (Want::MinEdge, Ok(Ok(d))) if d.coefficient() == i128::MIN && d.n_frac_digits() == 0 => None,
        (Want::Val(c, s), Ok(Ok(d))) => if d.coefficient() == *c && d.n_frac_digits() == *s { None } else if spec::same_value(&I512::from_i128(*c), *s, &I512::from_i128(d.coefficient()), d.n_frac_digits()) { Some("right value, not normalised") } else { Some("wrong value") },
        (Want::Val(..), Ok(Err(_))) => Some("error for a convertible value"),
        (_, Ok(Ok(_))) => Some("value where an error is required"),
        (_, Ok(Err(_))) => Some("wrong error kind"),
    }
}

// class: ty(1) | kind(3: nan, inf, overflow, zero, integral, exact frac, rounded) | rc(2) | neg(1)
fn code(ty: u64, kind: u64, rc: u64, neg: bool) -> u64 { (ty << 6) | (kind << 3) | (rc << 1) | neg as u64 }
fn class_name(c: u64) -> String {
    format!("{}/{}/{}/{}", if (c >> 6) & 1 == 0 { "f64" } else { "f32" }, ["NaN", "infinite", "overflow", "zero result", "integral", "fraction, exact", "fraction, rounded at 18 digits", "?"][((c >> 3) & 7) as usize],
        ["exact", "below-half", "tie", "above-half"][((c >> 1) & 3) as usize], if c & 1 == 1 { "negative" } else { "nonneg" })
}

fn classify(ty: u64, neg: bool, m: u64, e: i32, want: &Want, rc: &Option<RemClass>) -> (u64, &'static str) {
    let (kind, name) = match want {
        Want::Nan => (0, "NaN"), Want::Inf => (1, "infinite"), Want::Overflow | Want::MinEdge => (2, "beyond the coefficient range"),
        Want::Val(0, _) => (3, if m == 0 { "zero" } else { "rounds to zero" }),
        Want::Val(..) => if e >= 0 || rc.is_none() { (4, "integral") } else if *rc == Some(RemClass::Exact) { (5, "fraction with <= 18 digits") } else if *rc == Some(RemClass::Tie) { (6, "tie at the 18th digit") } else { (6, "rounded at the 18th digit") },
    };
    (code(ty, kind, rc.map(|r| r as u64).unwrap_or(0), neg), name)
}

thread_local! {
    /// index of the thread-default rounding mode the calling worker has set for the "foreign mode" stage
    /// (255 = untouched RoundHalfEven): it goes into the site and the replay witness
    static FOREIGN_MODE: std::cell::Cell<u8> = const { std::cell::Cell::new(255) };
}
fn mode_tag() -> (String, Value) {
    let m = FOREIGN_MODE.with(|c| c.get());
    if m == 255 { (String::new(), Value::Null) } else { (format!(" [thread default {}]", mode_name(ALL_MODES[m as usize])), json!(m)) }
}

pub fn case64(b: u64, l: &mut Local) {
    let f = f64::from_bits(b);
    let (neg, m, e, nan, inf) = decode64(b);
    let (want, rc) = model(neg, m, e, nan, inf);
    let got = catch(|| Decimal::try_from(f));
    l.evals += 1;
    let (c, name) = classify(0, neg, m, e, &want, &rc);
    if l.class(c) { l.sample(c, json!({"f64_bits": format!("{:#018x}", b), "value": format!("{:e}", f), "expected": format!("{:?}", want)})); }
    if let Ok(Ok(d)) = &got { l.outcome(hash_i128s(&[d.coefficient(), d.n_frac_digits() as i128])); }
    if let Some(kind) = judge(&want, &got) {
        let (tag, tagv) = mode_tag();
        l.violation(format!("Decimal::try_from(f64){} | {} | {}", tag, name, kind), || (format!("try_from({:e} = {:#018x}) = {}, expected {:?}", f, b, got.as_ref().map(show).unwrap_or("Panic".into()), want), json!({"ty": 64, "bits": b.to_string(), "thread_mode": tagv})));
    }
}

pub fn case32(b: u32, l: &mut Local) {
    let f = f32::from_bits(b);
    let (neg, m, e, nan, inf) = decode32(b);
    let (want, rc) = model(neg, m, e, nan, inf);
    let got = catch(|| Decimal::try_from(f));
    l.evals += 1;
    let (c, name) = classify(1, neg, m, e, &want, &rc);
    if l.class(c) { l.sample(c, json!({"f32_bits": format!("{:#010x}", b), "value": format!("{:e}", f), "expected": format!("{:?}", want)})); }
    if let Ok(Ok(d)) = &got { l.outcome(hash_i128s(&[d.coefficient(), d.n_frac_digits() as i128])); }
    if let Some(kind) = judge(&want, &got) {
        let (tag, tagv) = mode_tag();
        l.violation(format!("Decimal::try_from(f32){} | {} | {}", tag, name, kind), || (format!("try_from({:e} = {:#010x}) = {}, expected {:?}", f, b, got.as_ref().map(show).unwrap_or("Panic".into()), want), json!({"ty": 32, "bits": b.to_string(), "thread_mode": tagv})));
    }
    // every f32 widened to f64 must convert to the same Decimal
    if !nan {
        let w = f as f64;
        let g2 = catch(|| Decimal::try_from(w));
        l.evals += 1;
        let same = match (&got, &g2) {
            (Ok(Ok(x)), Ok(Ok(y))) => x.coefficient() == y.coefficient() && x.n_frac_digits() == y.n_frac_digits(),
            (Ok(Err(x)), Ok(Err(y))) => x == y,
            _ => false,
        };
        if !same {
            l.violation(format!("Decimal::try_from(f32 as f64) | {} | differs from try_from(f32)", name), || (format!("f32 {:e}: {} vs widened {}", f, got.as_ref().map(show).unwrap_or("Panic".into()), g2.as_ref().map(show).unwrap_or("Panic".into())), json!({"ty": 32, "bits": b.to_string()})));
        }
    }
}

pub fn replay(w: &Value) -> Vec<(String, String)> {
    let run = Run::new("C13", Tier::Quick);
    let bits: u64 = w["bits"].as_str().unwrap().parse().unwrap();
    let prev = RoundingMode::default();
    if let Some(m) = w["thread_mode"].as_u64() { FOREIGN_MODE.with(|c| c.set(m as u8)); RoundingMode::set_default(ALL_MODES[m as usize]); }
    run.seq(|l| if w["ty"].as_u64() == Some(64) { case64(bits, l) } else { case32(bits as u32, l) });
    FOREIGN_MODE.with(|c| c.set(255));
    RoundingMode::set_default(prev);
    run.violations().into_iter().map(|(s, r)| (s, r.detail)).collect()
}

fn frac_alphabet(bits: u32, top: u32, th: bool) -> Vec<u64> {
    // all settings of the top `top` and of the bottom `top` fraction bits, single and double bits, ones-tails
    let mut v: Vec<u64> = Vec::new();
    let full = (1u64 << bits) - 1;
    for x in 0..(1u64 << top) { v.push(x << (bits - top)); v.push(x); v.push(full & !x); v.push((x << (bits - top)) | ((1 << (bits - top)) - 1)); }
    for i in 0..bits { v.push(1u64 << i); v.push(full & !(1u64 << i)); v.push((1u64 << i) - 1); if th { for j in 0..i { v.push((1u64 << i) | (1u64 << j)); } } }
    v.sort(); v.dedup(); v
}

pub fn run(tier: Tier) -> i32 {
    let run = Run::new("C13", tier);
    let th = tier.thorough();
    verif_cov::reset();
    let mut exhaustive_f32 = false;
    // f32
    if th {
        // all 2^32 bit patterns
        let blocks: Vec<u32> = (0..65536).collect();
        run.par_for(&blocks, || {}, |&hi, l| { for lo in 0..65536u32 { case32((hi << 16) | lo, l); } l.distinct += 65536; });
        exhaustive_f32 = true;
        run.stage("f32: all 2^32 bit patterns", json!({"patterns": 4294967296u64}));
    } else {
        let fr = frac_alphabet(23, 10, false);
        let exps: Vec<u32> = (0..256).collect();
        run.par_for(&exps, || {}, |&be, l| { for s in [0u32, 1] { for &f in &fr { case32((s << 31) | (be << 23) | f as u32, l); l.distinct += 1; } } });
        run.stage("f32: all 256 exponent fields x both signs x significand alphabet", json!({"significands": fr.len()}));
    }
    // f64: all 2048 exponent fields x both signs x significand alphabet
    let fr64 = frac_alphabet(52, if th { 14 } else { 11 }, th);
    let exps: Vec<u64> = (0..2048).collect();
    run.par_for(&exps, || {}, |&be, l| { for s in [0u64, 1] { for &f in &fr64 { case64((s << 63) | (be << 52) | f, l); l.distinct += 1; } } });
    run.stage("f64: all 2048 exponent fields x both signs x significand alphabet", json!({"significands": fr64.len()}));
    // tie zone: t * 2^-19 for odd t (exact ties at the 18th digit: 2^-19 * 10^18 = 5^18/2) and neighbours one ulp either side
    let mut ts: Vec<u64> = Vec::new();
    for t in 0..(if th { 4_000_000u64 } else { 400_000 }) { ts.push(2 * t + 1); }
    for k in 20..=52u32 { for d in [1u64, 3, 5, 7, 9, 11] { ts.push((1u64 << k) + d); ts.push((1u64 << k).wrapping_sub(d)); if k < 52 { ts.push((1u64 << k) + (1u64 << (k / 2)) + d); } } }
    ts.retain(|t| *t < (1u64 << 53) && t % 2 == 1);
    ts.sort(); ts.dedup();
    run.par_for(&ts, || {}, |&t, l| {
        for sh in [19i32, 20, 21, 25, 40, 60] {
            let f = (t as f64) * 2f64.powi(-sh); // exact: t < 2^53
            let b = f.to_bits();
            for nb in [b - 1, b, b + 1] { case64(nb, l); case64(nb | (1u64 << 63), l); l.distinct += 2; }
        }
        let f32v = (t as f32) * 2f32.powi(-19);
        if (f32v as f64) == (t as f64) * 2f64.powi(-19) { let b = f32v.to_bits(); for nb in [b - 1, b, b + 1] { case32(nb, l); l.distinct += 1; } }
    });
    run.stage("tie zone", json!({"odd_t": ts.len(), "forms": "t*2^-19 (exact ties at the 18th digit), t*2^-{20,21,25,40,60}, one ulp either side, both signs"}));
    // the conversion rounds half-to-even WHATEVER the thread's default rounding mode is: the tie zone (reduced) again on
    // workers whose default mode is each of the seven other modes (a shared rounding helper called with "use the
    // thread default" would follow it: seeded change C13-m6)
    {
        let mut ts2: Vec<u64> = (0..(if th { 200_000u64 } else { 12_000 })).map(|t| 2 * t + 1).collect();
        for k in 20..=52u32 { for d in [1u64, 3, 5] { ts2.push((1u64 << k) + d); ts2.push((1u64 << k) - d); } }
        ts2.retain(|t| *t < (1u64 << 53) && t % 2 == 1);
        ts2.sort(); ts2.dedup();
        for (mi, mode) in ALL_MODES.iter().enumerate() {
            if *mode == RoundingMode::RoundHalfEven { continue; }
            run.par_for(&ts2, || { RoundingMode::set_default(*mode); FOREIGN_MODE.with(|c| c.set(mi as u8)); }, |&t, l| {
                for sh in [19i32, 20, 25, 60] {
                    let b = ((t as f64) * 2f64.powi(-sh)).to_bits();
                    for nb in [b - 1, b, b + 1] { case64(nb, l); case64(nb | (1u64 << 63), l); l.distinct += 2; }
                }
                let f32v = (t as f32) * 2f32.powi(-19);
                if (f32v as f64) == (t as f64) * 2f64.powi(-19) { let b = f32v.to_bits(); for nb in [b - 1, b, b + 1] { case32(nb, l); case32(nb | (1u32 << 31), l); l.distinct += 2; } }
            });
        }
        run.stage("tie zone under the seven other thread-default modes", json!({"odd_t": ts2.len(), "modes": 7}));
    }
    // round-trip family: the floats nearest to decimals c*10^-s for every coefficient of the boundary
    // alphabet (digit-count boundaries, 2^k +- 1 incl. the 2^24 / 2^53 precision limits, word boundaries)
    // at every scale, with one-ulp neighbours and both signs
    let kal = crate::alpha::coeffs(2, 50, if th { crate::alpha::Level::Thorough } else { crate::alpha::Level::Mid });
    run.par_for(&kal, || {}, |&cf, l| {
        if cf <= 0 { return; }
        for s in 0..=18u8 {
            let b = crate::c12::f64_bits(false, crate::c12::round_to_float(cf as u128, s, 53));
            for nb in [b - 1, b, b + 1] { case64(nb, l); case64(nb | (1u64 << 63), l); l.distinct += 2; }
            let b = crate::c12::f32_bits(false, crate::c12::round_to_float(cf as u128, s, 24));
            for nb in [b - 1, b, b + 1] { case32(nb, l); case32(nb | (1u32 << 31), l); l.distinct += 2; }
        }
    });
    run.stage("round-trip family", json!({"coefficients": kal.len(), "scales": 19, "form": "nearest float to c*10^-s, +-1 ulp, both signs, f64 and f32"}));
    // range limits: around 2^127, the largest fractional values, subnormals
    run.seq(|l| {
        for k in 100..=130 { let f = 2f64.powi(k); let b = f.to_bits(); for nb in [b - 2, b - 1, b, b + 1, b + 2] { case64(nb, l); case64(nb | (1u64 << 63), l); } }
        for k in 100..=127 { let f = 2f32.powi(k); let b = f.to_bits(); for nb in [b - 1, b, b + 1] { case32(nb, l); case32(nb | (1u32 << 31), l); } }
        for b in [0u64, 1, 2, (1u64 << 52) - 1, 1u64 << 52, 0x7fe << 52, (0x7ffu64 << 52) - 1, 0x7ffu64 << 52, (0x7ffu64 << 52) + 1, u64::MAX >> 1, u64::MAX] { case64(b, l); case64(b | (1u64 << 63), l); }
    });
    run.stage("range limits and specials", json!({}));

    let names = [(24usize, "approx_rational: loop left with remainder 0"), (25, "approx_rational: loop left at 18 digits"), (26, "approx_rational: loop left at the magnitude limit")];
    let mut hooks = serde_json::Map::new();
    for (i, nme) in names { hooks.insert(nme.to_string(), json!(verif_cov::get(i))); }
    run.set_extra("branch_hits", Value::Object(hooks));
    run.set_extra("f32_exhaustive", json!(exhaustive_f32));

    let mut required: Vec<Vec<u64>> = Vec::new();
    for ty in 0..2u64 { for neg in [false, true] {
        for kind in 0..=5u64 { required.push((0..4u64).map(|rc| code(ty, kind, rc, neg)).collect()); }
        for rc in [1u64, 2, 3] { required.push(vec![code(ty, 6, rc, neg)]); }
    }}
    finish(Finish {
        run: &run,
        level: "model_checking",
        rule: "Complete enumeration of bit patterns: f32: thorough all 2^32 patterns (exhaustive), quick all 256 exponent fields x both signs x a significand alphabet (all 2^10 settings of the top ten and bottom ten fraction bits, single bits, ones-tails); f64: all 2048 exponent fields x both signs x significand alphabet (2^9/2^12 top and bottom settings, single/double bits, ones-tails); the tie zone t*2^-19 for odd t (exact ties at the 18th digit) with one-ulp neighbours and both signs; range limits around 2^100..2^130; subnormals, zeros, infinities, NaNs; every f32 is also converted after widening to f64 and must give the same Decimal. distinct_nontrivial counts bit patterns.".into(),
        exhaustive: true,
        assumptions: vec!["oracle: exact value m*2^e; <= 18 fractional digits exact, else half-even at the 18th digit in 512-bit arithmetic; trailing zeros stripped; -2^127 accepted as value or InternalOverflow".into()],
        class_name: &class_name,
        required,
        replay: &replay,
    })
}
