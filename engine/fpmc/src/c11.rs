//! C11: formatting with precision, width, fill, alignment and sign flags.

use crate::alpha::{self, Level};
use crate::big::{I512, U512};
use crate::runner::*;
use crate::spec::*;
use fpdec::{Decimal, RoundingMode};
use serde_json::{json, Value};

const FLAGS: [&str; 10] = ["", "<", "^", ">", "0", "+", "+0", "*<", "*^", "#>"];

/// Stamp out one format literal per flag set; width and precision are
/// run-time arguments.
macro_rules! fmt_with {
    ($d:expr, $w:expr, $p:expr, $flags:literal) => {
        match ($w, $p) {
            (None, None) => format!(concat!("{:", $flags, "}"), $d),
            (Some(w), None) => format!(concat!("{:", $flags, "w$}"), $d, w = w),
            (None, Some(p)) => format!(concat!("{:", $flags, ".p$}"), $d, p = p),
            (Some(w), Some(p)) => format!(concat!("{:", $flags, "w$.p$}"), $d, w = w, p = p),
        }
    };
}

macro_rules! fmt_flag {
    ($fi:expr, $d:expr, $w:expr, $p:expr) => {
        match $fi {
            0 => fmt_with!($d, $w, $p, ""),
            1 => fmt_with!($d, $w, $p, "<"),
            2 => fmt_with!($d, $w, $p, "^"),
            3 => fmt_with!($d, $w, $p, ">"),
            4 => fmt_with!($d, $w, $p, "0"),
            5 => fmt_with!($d, $w, $p, "+"),
            6 => fmt_with!($d, $w, $p, "+0"),
            7 => fmt_with!($d, $w, $p, "*<"),
            8 => fmt_with!($d, $w, $p, "*^"),
            9 => fmt_with!($d, $w, $p, "#>"),
            _ => unreachable!(),
        }
    };
}

/// The digits part for (a, f) printed with `prec` under `mode`.
pub fn body(a: i128, f: u8, prec: Option<usize>, mode: RoundingMode) -> (String, Option<RemClass>) {
    let p = match prec { Some(p) => p.min(18) as u8, None => f };
    let (mag, rc): (U512, Option<RemClass>) = if p < f {
        let r = round_div(&I512::from_i128(a), &U512::pow10((f - p) as u32), mode);
        (r.value.mag, Some(r.rem_class))
    } else {
        (U512::from_u128(a.unsigned_abs()).mul(&U512::pow10((p - f) as u32)), None)
    };
    let mut d = mag.to_dec_string();
    if p > 0 {
        while d.len() < p as usize + 1 { d.insert(0, '0'); }
        let cut = d.len() - p as usize;
        d = format!("{}.{}", &d[..cut], &d[cut..]);
    }
    (d, rc)
}

/// Rust's documented integer padding rules.
pub fn layout(negative: bool, body: &str, width: Option<usize>, fi: usize) -> String {
    let plus = fi == 5 || fi == 6;
    let zero = fi == 4 || fi == 6;
    let sign = if negative { "-" } else if plus { "+" } else { "" };
    let len = sign.len() + body.chars().count();
    let w = width.unwrap_or(0);
    if w <= len { return format!("{}{}", sign, body); }
    let pad = w - len;
    if zero { return format!("{}{}{}", sign, "0".repeat(pad), body); }
    let (fill, align) = match fi { 1 => (' ', 'l'), 2 => (' ', 'c'), 3 => (' ', 'r'), 7 => ('*', 'l'), 8 => ('*', 'c'), 9 => ('#', 'r'), _ => (' ', 'r') };
    let (lp, rp) = match align { 'l' => (0, pad), 'c' => (pad / 2, pad - pad / 2), _ => (pad, 0) };
    format!("{}{}{}{}", fill.to_string().repeat(lp), sign, body, fill.to_string().repeat(rp))
}

// class: stage(1) | mode(3) | neg(1) | rem(3: none/exact/below/tie/above) | prec class(2: absent, <f, ==f, >f) | flag(4) | width class (2: absent, <=len, >len)
fn code(stage: u64, mode: usize, neg: bool, rc: Option<RemClass>, pc: u64, fi: usize, wc: u64) -> u64 {
    let r = match rc { None => 0, Some(x) => 1 + x as u64 };
    (stage << 16) | ((mode as u64) << 13) | ((neg as u64) << 12) | (r << 9) | (pc << 7) | ((fi as u64) << 3) | wc
}

fn class_name(c: u64) -> String {
    format!("{}/{}/{}/{}/precision {}/flags '{}'/width {}", if (c >> 16) & 1 == 0 { "value sweep" } else { "layout sweep" }, mode_name(ALL_MODES[((c >> 13) & 7) as usize]),
        if (c >> 12) & 1 == 1 { "negative" } else { "nonneg" }, ["no rounding", "exact", "below-half", "tie", "above-half"][((c >> 9) & 7) as usize],
        ["absent", "< scale", "= scale", "> scale"][((c >> 7) & 3) as usize], FLAGS[((c >> 3) & 15) as usize], ["absent", "<= text length", "> text length"][(c & 7) as usize])
}

thread_local! {
    /// history stage: the formatting call that FAILED (sink returned fmt::Error after `cap` bytes) on this thread
    /// immediately before the case under check: (coefficient, scale, precision, cap)
    static PRELUDE: std::cell::Cell<Option<(i128, u8, Option<usize>, usize)>> = const { std::cell::Cell::new(None) };
}

/// A sink that accepts `cap` bytes and then fails.
struct LimitedSink { left: usize }
impl std::fmt::Write for LimitedSink {
    fn write_str(&mut self, s: &str) -> std::fmt::Result { if s.len() > self.left { self.left = 0; Err(std::fmt::Error) } else { self.left -= s.len(); Ok(()) } }
}

/// Format (a, f) with `prec` into a sink that fails after `cap` bytes; the error is the expected outcome.
fn failed_write(a: i128, f: u8, prec: Option<usize>, cap: usize) {
    use std::fmt::Write as _;
    let d = Decimal::new_raw(a, f);
    let mut sink = LimitedSink { left: cap };
    let _ = catch(|| match prec { Some(p) => write!(sink, "{:.*}", p, d), None => write!(sink, "{}", d) });
}

pub fn case(stage: u64, a: i128, f: u8, prec: Option<usize>, width: Option<usize>, fi: usize, mode: RoundingMode, l: &mut Local) {
    let d = Decimal::new_raw(a, f);
    let prelude = PRELUDE.with(|c| c.get());
    let ptag = if prelude.is_some() { " [directly after a formatting call whose sink failed]" } else { "" };
    let (b, rc) = body(a, f, prec, mode);
    let want = layout(a < 0, &b, width, fi);
    let got = catch(|| fmt_flag!(fi, d, width, prec));
    l.evals += 1;
    l.distinct += 1;
    let pc = match prec { None => 0, Some(p) if (p.min(18) as u8) < f => 1, Some(p) if p.min(18) as u8 == f => 2, _ => 3 };
    let wc = match width { None => 0, Some(w) if w <= want.chars().count() && w <= b.len() + 1 => 1, _ => 2 };
    let c = code(stage, if rc.is_some() { mode_idx(mode) } else { 0 }, a < 0, rc, pc, fi, wc);
    if l.class(c) { l.sample(c, json!({"coeff": a.to_string(), "scale": f, "precision": prec, "width": width, "flags": FLAGS[fi], "mode": mode_name(mode), "expected": want})); }
    let mk = || json!({"a": a.to_string(), "f": f, "prec": prec, "width": width, "fi": fi, "mode": mode_name(mode), "after_failed_write": prelude.map(|(pa, pf, pp, cap)| json!({"a": pa.to_string(), "f": pf, "prec": pp, "cap": cap}))});
    match got {
        Ok(s) => {
            l.outcome(fnv(s.as_bytes()));
            if s != want {
                let stripped = |t: &str| t.trim_matches(|ch| ch == ' ' || ch == '*' || ch == '#').trim_start_matches(|ch| ch == '+' || ch == '-').trim_start_matches('0').to_string();
                let kind = if stripped(&s) == stripped(&want) { "sign/padding differs" } else { "digits differ" };
                let pcn = ["precision absent", "precision < scale (rounding)", "precision = scale", "precision > scale (zero extension)"][pc as usize];
                let rcn = match rc { Some(RemClass::Tie) => ", tie", Some(RemClass::Exact) => ", exact", Some(_) => ", inexact", None => "" };
                l.violation(format!("Display flags '{}'{} | {}{}{} | {}", FLAGS[fi], ptag, pcn, rcn, if a < 0 { ", negative" } else { "" }, kind), || (format!("format!(\"{{:{}{}{}}}\", ({},{})) mode={} = {:?}, expected {:?}", FLAGS[fi], width.map(|w| w.to_string()).unwrap_or_default(), prec.map(|p| format!(".{}", p)).unwrap_or_default(), a, f, mode_name(mode), s, want), mk()));
            }
            // sub-oracle binding the layout model to Rust itself: scale 0, no precision == integer formatting
            if f == 0 && prec.is_none() {
                let int_fmt = fmt_flag!(fi, a, width, None::<usize>);
                if int_fmt != want {
                    l.violation("layout model | disagrees with Rust's integer formatting | machinery".to_string(), || (format!("model {:?} vs format!(i128) {:?}", want, int_fmt), mk()));
                }
            }
        }
        Err(()) => l.violation(format!("Display flags '{}' | any | panicked", FLAGS[fi]), || ("panicked".to_string(), mk())),
    }
}

pub fn replay(w: &Value) -> Vec<(String, String)> {
    let run = Run::new("C11", Tier::Quick);
    let prev = RoundingMode::default();
    let mode = w["mode"].as_str().and_then(mode_from_name).unwrap_or(RoundingMode::RoundHalfEven);
    RoundingMode::set_default(mode);
    run.seq(|l| {
        let pre = &w["after_failed_write"];
        if pre.is_object() {
            let p = (pre["a"].as_str().unwrap().parse().unwrap(), pre["f"].as_u64().unwrap() as u8, pre["prec"].as_u64().map(|x| x as usize), pre["cap"].as_u64().unwrap() as usize);
            failed_write(p.0, p.1, p.2, p.3);
            PRELUDE.with(|c| c.set(Some(p)));
        }
        case(0, w["a"].as_str().unwrap().parse().unwrap(), w["f"].as_u64().unwrap() as u8, w["prec"].as_u64().map(|x| x as usize),
            w["width"].as_u64().map(|x| x as usize), w["fi"].as_u64().unwrap() as usize, mode, l);
        PRELUDE.with(|c| c.set(None));
    });
    RoundingMode::set_default(prev);
    run.violations().into_iter().map(|(s, r)| (s, r.detail)).collect()
}

pub fn run(tier: Tier) -> i32 {
    let run = Run::new("C11", tier);
    let th = tier.thorough();
    // (A) value sweep: operands x precision {absent, 0..=40} x 8 modes, no width
    let k = alpha::coeffs(if th { 2 } else { 1 }, if th { 30000 } else { 200 }, if th { Level::Thorough } else { Level::Mid });
    let mut ops: Vec<(i128, u8)> = Vec::new();
    for &a in &k { for f in 0..=18u8 { ops.push((a, f)); } }
    // rounding frontier: coefficients at q*10^s + {0, 1, half-1, half, half+1, 10^s-1}
    for s in 1..=18u32 { let ps = alpha::pow10(s); for q in [0i128, 1, 2, 4, 5, 9, 10, 14, 15, 25, 99, 100, 12345] { for r in [0, 1, ps / 2 - 1, ps / 2, ps / 2 + 1, ps - 1] {
        let a = q * ps + r;
        for f in [s as u8, 18] { if f as u32 >= s { ops.push((a, f)); ops.push((-a, f)); } }
    }}}
    ops.sort(); ops.dedup();
    let precs: Vec<Option<usize>> = std::iter::once(None).chain((0..=40).map(Some)).collect();
    for mode in ALL_MODES {
        run.par_for(&ops, || RoundingMode::set_default(mode), |&(a, f), l| {
            for &p in &precs {
                // cases that do not round are mode independent: two phases suffice
                let rounds = matches!(p, Some(pp) if (pp.min(18) as u8) < f);
                if !rounds && !(mode_idx(mode) == 0 || mode_idx(mode) == 5) { continue; }
                case(0, a, f, p, None, 0, mode, l);
                if rounds && a % 3 == 0 { case(0, a, f, p, None, 5, mode, l); case(0, a, f, p, Some(30), 4, mode, l); }
            }
        });
    }
    run.stage("(A) value sweep", json!({"operands": ops.len(), "precisions": "absent, 0..=40", "modes": 8}));

    // (B) layout sweep
    let mut lops: Vec<(i128, u8)> = Vec::new();
    for &a in &[0i128, 1, -1, 5, -5, 9, 10, -10, 99, 123, -123, 4999, 5000, -5001, 123456789, -987654321012, alpha::pow10(18), -alpha::pow10(18) + 1, alpha::pow10(30) + 7, M, -M, M / 1000] {
        for f in [0u8, 1, 2, 3, 9, 17, 18] { lops.push((a, f)); }
    }
    if th { for &a in k.iter().step_by(40) { for f in [0u8, 4, 18] { lops.push((a, f)); } } lops.sort(); lops.dedup(); }
    let lprecs: Vec<Option<usize>> = vec![None, Some(0), Some(1), Some(2), Some(17), Some(18), Some(19), Some(40)];
    let widths: Vec<Option<usize>> = std::iter::once(None).chain((0..=60).map(Some)).collect();
    let lmodes: Vec<RoundingMode> = ALL_MODES.to_vec();
    for &mode in &lmodes {
        run.par_for(&lops, || RoundingMode::set_default(mode), |&(a, f), l| {
            for &p in &lprecs { for &w in &widths { for fi in 0..10 { case(1, a, f, p, w, fi, mode, l); } } }
        });
    }
    run.stage("(B) layout sweep", json!({"operands": lops.len(), "precisions": 8, "widths": "absent, 0..=60", "flag_sets": FLAGS, "modes": lmodes.len()}));
    // (C) histories on one thread: a formatting call whose sink FAILS part-way (fmt::Error after cap bytes), directly
    // followed by an ordinary format!: per-thread scratch state left behind by the aborted call must not leak into the
    // next one (seeded change C11-h1)
    {
        let pre: Vec<(i128, u8, Option<usize>)> = vec![(-1234567890007, 4, None), (5, 1, Some(0)), (99999, 2, Some(1)), (i128::MAX, 18, Some(3)), (-1, 18, Some(30)), (0, 3, None), (1 << 64, 0, Some(2))];
        let post: Vec<(i128, u8, Option<usize>)> = vec![(-7125, 3, Some(2)), (15, 1, Some(0)), (0, 0, None), (123456789, 4, Some(9)), (-5, 18, None), (25, 1, None)];
        let mut hist: Vec<((i128, u8, Option<usize>), usize, (i128, u8, Option<usize>))> = Vec::new();
        for &p in &pre { for cap in [0usize, 1, 2, 5, 11, 21] { for &q in &post { hist.push((p, cap, q)); } } }
        for mode in [RoundingMode::RoundHalfEven, RoundingMode::RoundUp] {
            run.par_for(&hist, || RoundingMode::set_default(mode), |&(p, cap, q), l| {
                failed_write(p.0, p.1, p.2, cap);
                PRELUDE.with(|c| c.set(Some((p.0, p.1, p.2, cap))));
                case(0, q.0, q.1, q.2, None, 0, mode, l);
                case(0, q.0, q.1, q.2, Some(12), 0, mode, l);
                PRELUDE.with(|c| c.set(None));
            });
        }
        run.stage("(C) format directly after a formatting call whose sink failed", json!({"histories": hist.len(), "sink_capacities": "0,1,2,5,11,21 bytes", "modes": 2}));
    }

    let mut required: Vec<Vec<u64>> = Vec::new();
    for m in 0..8 { for neg in [false, true] { for rc in [RemClass::Exact, RemClass::BelowHalf, RemClass::Tie, RemClass::AboveHalf] {
        required.push(vec![code(0, m, neg, Some(rc), 1, 0, 0)]);
    }}}
    for pc in [0u64, 2, 3] { for neg in [false, true] { required.push(vec![code(0, 0, neg, None, pc, 0, 0)]); } }
    for fi in 0..10usize { for wc in 0..3u64 { for neg in [false, true] {
        let mut g = Vec::new();
        for m in 0..8 { for r in [None, Some(RemClass::Exact), Some(RemClass::BelowHalf), Some(RemClass::Tie), Some(RemClass::AboveHalf)] { for pc in 0..4u64 { g.push(code(1, m, neg, r, pc, fi, wc)); } } }
        required.push(g);
    }}}

    finish(Finish {
        run: &run,
        level: "model_checking",
        rule: "Complete enumeration of (operand, precision, width, flags, thread-default mode): (A) coefficient alphabet plus the rounding frontier q*10^s+{0,1,half-1,half,half+1,10^s-1} x 19 scales x precision {absent,0..=40} x 8 modes; (B) 154 operands of all output lengths and signs x precision {absent,0,1,2,17,18,19,40} x width {absent,0..=60} x 10 flag sets {none,<,^,>,0,+,+0,*<,*^,#>} (each a separate format literal). Every tuple distinct by construction; all are non-trivial.".into(),
        exhaustive: true,
        assumptions: vec![
            "digits: single rounding to min(P,18) digits in the reference arithmetic; sign from d (so -0.004 at .2 prints -0.00)".into(),
            "layout: Rust's documented integer rules, bound to Rust itself on every scale-0/no-precision case (byte-identical to format!(same spec, coefficient))".into(),
        ],
        class_name: &class_name,
        required,
        replay: &replay,
    })
}
