//! C14: integer conversions are exact and total with precise error kinds.

use crate::alpha::{self, Level};
use crate::big::{I512, U512};
use crate::runner::*;
use fpdec::{Decimal, DecimalError, TryFromDecimalError};
use serde_json::{json, Value};
use std::convert::TryFrom;

const TYPES: [&str; 10] = ["u8", "i8", "u16", "i16", "u32", "i32", "u64", "i64", "i128", "u128"];

fn range(t: usize) -> (I512, I512) {
    match t {
        9 => (I512::ZERO, I512::from_u128(u128::MAX)),
        _ => { let (lo, hi) = alpha::int_range(t); (I512::from_i128(lo), I512::from_i128(hi)) }
    }
}

#[derive(Clone, Debug, PartialEq)]
enum Want { Ok(I512), NotInt, OutOfRange }

fn model(a: i128, f: u8, t: usize) -> Want {
    let (q, r) = I512::from_i128(a).divrem_trunc(&I512::new(false, U512::pow10(f as u32)));
    if !r.is_zero() { return Want::NotInt; }
    let (lo, hi) = range(t);
    if q < lo || q > hi { Want::OutOfRange } else { Want::Ok(q) }
}

macro_rules! conv {
    ($t:ty, $d:expr) => { catch(|| <$t>::try_from($d)).map(|r| r.map(|v| I512::from_i128(v as i128))) };
}

fn call(t: usize, d: Decimal) -> Result<Result<I512, TryFromDecimalError>, ()> {
    match t {
        0 => conv!(u8, d), 1 => conv!(i8, d), 2 => conv!(u16, d), 3 => conv!(i16, d), 4 => conv!(u32, d), 5 => conv!(i32, d),
        6 => conv!(u64, d), 7 => conv!(i64, d), 8 => conv!(i128, d),
        9 => catch(|| u128::try_from(d)).map(|r| r.map(I512::from_u128)),
        _ => unreachable!(),
    }
}

// class: dir(1) | type(4) | outcome(2) | neg(1) | trailing-zero representation(1)
fn code(dir: u64, t: usize, out: u64, neg: bool, tz: bool) -> u64 { (dir << 8) | ((t as u64) << 4) | (out << 2) | ((neg as u64) << 1) | tz as u64 }
fn class_name(c: u64) -> String {
    if (c >> 8) & 1 == 1 { return format!("Decimal::from({})/{}", TYPES[((c >> 4) & 15) as usize], ["ok", "InternalOverflow", "", ""][((c >> 2) & 3) as usize]); }
    format!("{}::try_from(Decimal)/{}/{}/{}", TYPES[((c >> 4) & 15) as usize], ["Ok", "NotAnIntValue", "ValueOutOfRange", "?"][((c >> 2) & 3) as usize], if (c >> 1) & 1 == 1 { "negative" } else { "nonneg" }, if c & 1 == 1 { "scale>0" } else { "scale 0" })
}

pub fn into_case(a: i128, f: u8, l: &mut Local) {
    let d = Decimal::new_raw(a, f);
    l.distinct += 1;
    for t in 0..10 {
        let want = model(a, f, t);
        let got = call(t, d);
        l.evals += 1;
        let out = match want { Want::Ok(_) => 0, Want::NotInt => 1, Want::OutOfRange => 2 };
        let c = code(0, t, out, a < 0, f > 0);
        if l.class(c) { l.sample(c, json!({"coeff": a.to_string(), "scale": f, "type": TYPES[t], "expected": format!("{:?}", match &want { Want::Ok(v) => format!("Ok({})", v.to_dec_string()), w => format!("{:?}", w) })})); }
        let ok = match (&want, &got) {
            (Want::Ok(v), Ok(Ok(g))) => v == g,
            (Want::NotInt, Ok(Err(TryFromDecimalError::NotAnIntValue))) => true,
            (Want::OutOfRange, Ok(Err(TryFromDecimalError::ValueOutOfRange))) => true,
            _ => false,
        };
        if !ok {
            let kind = match (&want, &got) { (_, Err(())) => "panicked", (Want::Ok(_), Ok(Ok(_))) => "wrong value", (Want::Ok(_), _) => "error for a convertible value", (_, Ok(Ok(_))) => "value where an error is required", _ => "wrong error kind" };
            let rep = if f > 0 { "scale>0" } else { "scale 0" };
            let w = match &want { Want::Ok(_) => "in range integral", Want::NotInt => "non-integral", Want::OutOfRange => "integral out of range" };
            l.violation(format!("{}::try_from(Decimal) | {}, {} | {}", TYPES[t], w, rep, kind), || (format!("{}::try_from(({},{})) = {:?}, expected {:?}", TYPES[t], a, f, got.as_ref().map(|r| r.as_ref().map(|v| v.to_dec_string())), match &want { Want::Ok(v) => format!("Ok({})", v.to_dec_string()), w => format!("{:?}", w) }), json!({"k": "into", "a": a.to_string(), "f": f})));
        }
    }
}

macro_rules! from_all {
    ($t:ty, $ti:expr, $l:expr) => {
        for v in <$t>::MIN..=<$t>::MAX {
            let d = catch(|| Decimal::from(v));
            $l.evals += 1; $l.distinct += 1;
            $l.class(code(1, $ti, 0, false, false));
            match d { Ok(d) if d.coefficient() == v as i128 && d.n_frac_digits() == 0 => {}
                other => $l.violation(format!("Decimal::from({}) | any | wrong value", TYPES[$ti]), || (format!("Decimal::from({}_{}) = {:?}", v, TYPES[$ti], other), json!({"k": "from", "t": $ti, "v": (v as i128).to_string()}))) }
        }
    };
}

fn from_case(t: usize, v: i128, l: &mut Local) {
    let d = crate::with_int!(t, v, i => catch(|| Decimal::from(i)));
    l.evals += 1; l.distinct += 1;
    l.class(code(1, t, 0, false, false));
    match d { Ok(d) if d.coefficient() == v && d.n_frac_digits() == 0 => {}
        other => l.violation(format!("Decimal::from({}) | any | wrong value", TYPES[t]), || (format!("Decimal::from({}_{}) = {:?}", v, TYPES[t], other), json!({"k": "from", "t": t, "v": v.to_string()}))) }
}

fn from_u128_case(v: u128, l: &mut Local) {
    let got = catch(|| Decimal::try_from(v));
    l.evals += 1; l.distinct += 1;
    let fits = v <= i128::MAX as u128;
    l.class(code(1, 9, if fits { 0 } else { 1 }, false, false));
    let ok = match &got { Ok(Ok(d)) => fits && d.coefficient() == v as i128 && d.n_frac_digits() == 0, Ok(Err(DecimalError::InternalOverflow)) => !fits, _ => false };
    if !ok { l.violation("Decimal::try_from(u128) | around 2^127 | wrong result".into(), || (format!("try_from({}u128) = {:?}", v, got), json!({"k": "fromu128", "v": v.to_string()}))); }
}

pub fn replay(w: &Value) -> Vec<(String, String)> {
    let run = Run::new("C14", Tier::Quick);
    run.seq(|l| match w["k"].as_str().unwrap_or("") {
        "into" => into_case(w["a"].as_str().unwrap().parse().unwrap(), w["f"].as_u64().unwrap() as u8, l),
        "from" => from_case(w["t"].as_u64().unwrap() as usize, w["v"].as_str().unwrap().parse().unwrap(), l),
        "fromu128" => from_u128_case(w["v"].as_str().unwrap().parse().unwrap(), l),
        _ => {}
    });
    run.violations().into_iter().map(|(s, r)| (s, r.detail)).collect()
}

pub fn run(tier: Tier) -> i32 {
    let run = Run::new("C14", tier);
    let th = tier.thorough();
    // Decimal::from(i): every value of the 8- and 16-bit types
    run.seq(|l| { from_all!(u8, 0, l); from_all!(i8, 1, l); from_all!(u16, 2, l); from_all!(i16, 3, l); });
    let wide: Vec<usize> = (4..9).collect();
    run.par_for(&wide, || {}, |&t, l| { for v in alpha::int_values(t, Level::Thorough, &[]) { from_case(t, v, l); } let (lo, hi) = alpha::int_range(t); for k in 0..127 { for d in [-1i128, 0, 1] { let v = (1i128 << k).saturating_add(d); if v >= lo && v <= hi { from_case(t, v, l); } if -v >= lo && -v <= hi { from_case(t, -v, l); } } } });
    run.seq(|l| { for d in 0..5u128 { from_u128_case((1u128 << 127) - 1 - d, l); from_u128_case((1u128 << 127) + d, l); from_u128_case(u128::MAX - d, l); from_u128_case(d, l); } for k in 0..128 { from_u128_case(1u128 << k, l); } });
    run.stage("Decimal::from / try_from(u128)", json!({"complete_types": ["u8", "i8", "u16", "i16"], "wider_types": "range ends, small values, powers of ten and of two +-1"}));

    // T::try_from(d): complete small scope covers both range ends of the 8/16-bit types in every representation
    let n: i128 = if th { 30_000_000 } else { 700_000 };
    run.par_range(-n, n, || {}, |a, l| { for f in 0..=18u8 { into_case(a, f, l); } });
    run.stage("try_from(Decimal): small scope", json!({"|a|<=": n, "scales": 19, "targets": TYPES}));
    // boundary values of every type at every scale k: {MIN-1..MAX+1}*10^k at scale k, and the same +-1 / +-5*10^(k-1) in the last places
    let mut items: Vec<(usize, u8)> = Vec::new();
    for t in 0..10 { for k in 0..=18u8 { items.push((t, k)); } }
    run.par_for(&items, || {}, |&(t, k), l| {
        let (lo, hi) = range(t);
        let pk = I512::new(false, U512::pow10(k as u32));
        let mut bases = vec![I512::from_i128(-1), I512::ZERO, I512::from_i128(1)];
        for d in [-2i128, -1, 0, 1, 2] { bases.push(lo.add(&I512::from_i128(d))); bases.push(hi.add(&I512::from_i128(d))); }
        for b in bases {
            let scaled = b.mul(&pk);
            let mut deltas = vec![0i128, 1, -1];
            if k > 0 { let h = 5 * alpha::pow10(k as u32 - 1); deltas.extend_from_slice(&[h, -h, h - 1, h + 1, alpha::pow10(k as u32) - 1, 1 - alpha::pow10(k as u32)]); }
            for dl in deltas {
                if let Some(a) = crate::pairs::clip(&scaled.add(&I512::from_i128(dl))) { into_case(a, k, l); }
            }
        }
    });
    run.stage("try_from(Decimal): range-end frontier", json!({"per type and scale": "{MIN-2..MIN+2, -1, 0, 1, MAX-2..MAX+2}*10^k at scale k, +-1, +-5*10^(k-1)+-1, +-(10^k-1) in the last places"}));
    let k = alpha::coeffs(1, 20, if th { Level::Thorough } else { Level::Mid });
    run.par_for(&k, || {}, |&a, l| { if a.abs() > n { for f in 0..=18u8 { into_case(a, f, l); } } });
    run.stage("try_from(Decimal): coefficient alphabet", json!({"coefficients": k.len()}));

    let mut required: Vec<Vec<u64>> = Vec::new();
    for t in 0..10usize {
        for tz in [false, true] {
            required.push(vec![code(0, t, 0, false, tz)]);
            required.push(vec![code(0, t, 1, false, true)]);
            required.push(vec![code(0, t, 2, true, tz)]);
            if t != 8 && t != 9 { required.push(vec![code(0, t, 2, false, tz)]); }
            if ![0usize, 2, 4, 6, 9].contains(&t) { required.push(vec![code(0, t, 0, true, tz)]); }
        }
        required.push(vec![code(1, t, 0, false, false)]);
    }
    required.push(vec![code(1, 9, 1, false, false)]);
    // i128 can never be out of range; unsigned types reject negatives as out of range
    let required: Vec<Vec<u64>> = required.into_iter().filter(|g| !(g[0] == code(0, 8, 2, true, false) || g[0] == code(0, 8, 2, true, true))).collect();
    finish(Finish {
        run: &run,
        level: "model_checking",
        rule: "Complete enumeration: Decimal::from for every value of u8, i8, u16, i16 (exhaustive) and boundary/power alphabets of the wider types; try_from(u128) around 2^127; T::try_from(Decimal) for the 10 primitive types on all |a|<=N x 19 scales (covers both range ends of the 8/16-bit types in every representation), the range-end frontier of every type at every scale k (integral values written with k trailing fractional zeros, and non-integral neighbours), and the coefficient alphabet x 19 scales. distinct_nontrivial counts distinct inputs.".into(),
        exhaustive: true,
        assumptions: vec!["oracle: integrality by 512-bit remainder, range by comparison with the type's limits".into()],
        class_name: &class_name,
        required,
        replay: &replay,
    })
}
