//! C09: hash agrees with equality; as_integer_ratio is the reduced fraction.

use crate::alpha::{self, Level};
use crate::big::{I512, U512};
use crate::runner::*;
use fpdec::{AsIntegerRatio, Decimal};
use serde_json::{json, Value};
use std::collections::hash_map::DefaultHasher;
use std::collections::{HashMap, HashSet};
use std::hash::{Hash, Hasher};

fn h<T: Hash + ?Sized>(t: &T) -> u64 {
    let mut s = DefaultHasher::new();
    t.hash(&mut s);
    s.finish()
}

fn gcd(mut a: u128, mut b: u128) -> u128 {
    while b != 0 { let t = a % b; a = b; b = t; }
    a
}

/// Reduced fraction of a * 10^-f by Euclid on u128.
pub fn model_ratio(a: i128, f: u8) -> (i128, i128) {
    let den = 10u128.pow(f as u32);
    let g = gcd(a.unsigned_abs(), den);
    let g = if g == 0 { den } else { g };
    ((a / g as i128), (den / g) as i128)
}

/// One value in all its representations: normalised (c, s) and 0..=18-s trailing zeros that fit.
pub fn value_case(c: i128, s: u8, l: &mut Local) {
    let want = model_ratio(c, s);
    let want_hash = h(&want);
    let mut reps = 0;
    for t in 0..=(18 - s) {
        let a = match c.checked_mul(alpha::pow10(t as u32)) { Some(v) if v != i128::MIN => v, _ => break };
        let f = s + t;
        reps += 1;
        let d = Decimal::new_raw(a, f);
        let mk = || json!({"c": c.to_string(), "s": s});
        let cls = ((c < 0) as u64) << 12 | ((c == 0) as u64) << 11 | (s as u64) << 6 | t as u64;
        if l.class(cls) { l.sample(cls, json!({"coeff": a.to_string(), "scale": f, "ratio": [want.0.to_string(), want.1.to_string()]})); }
        l.evals += 4;
        let rep = if t == 0 { "normalised representation" } else { "representation with trailing zeros" };
        let sc = if f == 18 { ", scale 18" } else { "" };
        let neg = if c < 0 { ", negative" } else { "" };
        match catch(|| (d.as_integer_ratio(), d.numerator(), d.denominator(), h(&d))) {
            Err(()) => l.violation(format!("as_integer_ratio/hash | {}{}{} | panicked", rep, sc, neg), || (format!("({},{}) panicked", a, f), mk())),
            Ok((r, n, dn, hd)) => {
                l.outcome(hd);
                if r != want {
                    l.violation(format!("as_integer_ratio | {}{}{} | not the reduced fraction", rep, sc, neg), || (format!("({},{}).as_integer_ratio() = {:?}, expected {:?}", a, f, r, want), mk()));
                } else {
                    // independent certificate: n * 10^f == a * d, d > 0, gcd == 1
                    let lhs = I512::from_i128(r.0).mul(&I512::new(false, U512::pow10(f as u32)));
                    let rhs = I512::from_i128(a).mul(&I512::from_i128(r.1));
                    assert!(lhs == rhs && r.1 > 0 && gcd(r.0.unsigned_abs(), r.1 as u128) == 1, "reference ratio inconsistent");
                }
                if n != want.0 { l.violation(format!("numerator | {}{}{} | differs from as_integer_ratio", rep, sc, neg), || (format!("({},{}).numerator() = {}, expected {}", a, f, n, want.0), mk())); }
                if dn != want.1 { l.violation(format!("denominator | {}{}{} | differs from as_integer_ratio", rep, sc, neg), || (format!("({},{}).denominator() = {}, expected {}", a, f, dn, want.1), mk())); }
                // Decimals hashed as ELEMENTS of a slice / array / Vec go through Hash::hash_slice, which a type may
                // override: equal values must hash identically there too, and identically to their (n, d) pairs
                l.evals += 1;
                match catch(|| (h(&[d, d][..]), h(&vec![d]), h(&[want, want][..]), h(&vec![want]))) {
                    Ok((hs, hv, ws, wv)) => if hs != ws || hv != wv { l.violation(format!("Hash (as slice / Vec element, hash_slice) | {}{}{} | differs from the hash of the (numerator, denominator) pairs", rep, sc, neg), || (format!("hash([d, d]) = {:#x} vs {:#x}; hash(vec![d]) = {:#x} vs {:#x} for d = ({},{})", hs, ws, hv, wv, a, f), mk())); },
                    Err(()) => l.violation(format!("Hash (as slice / Vec element, hash_slice) | {}{}{} | panicked", rep, sc, neg), || (format!("({},{})", a, f), mk())),
                }
                if hd != want_hash { l.violation(format!("Hash | {}{}{} | differs from the hash of (numerator, denominator)", rep, sc, neg), || (format!("hash(({},{})) = {:#x}, hash({:?}) = {:#x}", a, f, hd, want, want_hash), mk())); }
            }
        }
    }
    if reps > 1 { l.distinct += 1; }
    // interchangeable as HashSet keys (small sample: set semantics over all representations)
    if s <= 2 && c.unsigned_abs() < 1000 {
        // fixed-key hasher: the outcome must not depend on RandomState
        type Fixed = std::hash::BuildHasherDefault<DefaultHasher>;
        let mut set: HashSet<Decimal, Fixed> = HashSet::default();
        for t in 0..=(18 - s) { if let Some(a) = c.checked_mul(alpha::pow10(t as u32)) { set.insert(Decimal::new_raw(a, s + t)); } }
        l.evals += 1;
        if set.len() != 1 {
            l.violation("HashSet | equal values | not collapsed to one key".into(), || (format!("{} keys for value ({},{})", set.len(), c, s), json!({"c": c.to_string(), "s": s})));
        }
        let mut map: HashMap<Decimal, u8, Fixed> = HashMap::default();
        map.insert(Decimal::new_raw(c, s), 1);
        if let Some(a) = c.checked_mul(1000) { if map.get(&Decimal::new_raw(a, s + 3)) != Some(&1) {
            l.violation("HashMap | equal values | lookup with another representation fails".into(), || (format!("value ({},{})", c, s), json!({"c": c.to_string(), "s": s})));
        }}
    }
}

pub fn replay(w: &Value) -> Vec<(String, String)> {
    let run = Run::new("C09", Tier::Quick);
    run.seq(|l| value_case(w["c"].as_str().unwrap().parse().unwrap(), w["s"].as_u64().unwrap() as u8, l));
    run.violations().into_iter().map(|(s, r)| (s, r.detail)).collect()
}

fn class_name(c: u64) -> String {
    format!("{}/normalised scale {}/{} trailing zeros", if (c >> 12) & 1 == 1 { "negative" } else if (c >> 11) & 1 == 1 { "zero" } else { "positive" }, (c >> 6) & 31, c & 63)
}

pub fn run(tier: Tier) -> i32 {
    let run = Run::new("C09", tier);
    let th = tier.thorough();
    // S1: every value with |c| <= N at every scale (non-normalised c included: the family then starts from that representation)
    let n: i128 = if th { 15_000_000 } else { 250_000 };
    run.par_range(-n, n, || {}, |c, l| { for s in 0..=18u8 { value_case(c, s, l); } });
    run.stage("S1 small scope", json!({"|c|<=": n, "scales": 19, "representations": "0..=18-s trailing zeros"}));
    // S2: complete 2-5-smooth lattice times small odd cofactors, at every scale
    let mut lattice: Vec<i128> = Vec::new();
    for m in [1i128, 3, 7, 9, 11, 13] {
        let mut p2: i128 = 1;
        for _i in 0..=126 {
            let mut v = p2.checked_mul(m);
            let mut j = 0;
            while let Some(x) = v {
                lattice.push(x); lattice.push(-x);
                j += 1;
                if j > 54 { break; }
                v = x.checked_mul(5);
            }
            p2 = match p2.checked_mul(2) { Some(x) => x, None => break };
        }
    }
    lattice.sort(); lattice.dedup();
    run.par_for(&lattice, || {}, |&c, l| { for s in 0..=18u8 { value_case(c, s, l); } });
    run.stage("S2 2-5-smooth lattice", json!({"values": lattice.len(), "form": "+-2^i*5^j*m, m in {1,3,7,9,11,13}", "scales": 19}));
    // S3: boundary alphabet
    let k = alpha::coeffs(2, 50, if th { Level::Thorough } else { Level::Mid });
    run.par_for(&k, || {}, |&c, l| { for s in 0..=18u8 { value_case(c, s, l); } });
    run.stage("S3 coefficient alphabet", json!({"coefficients": k.len()}));

    let mut required: Vec<Vec<u64>> = Vec::new();
    for s in 0..=18u64 { for t in 0..=(18 - s) { for sg in [0u64, 1 << 12] { required.push(vec![sg | (s << 6) | t]); } } }
    finish(Finish {
        run: &run,
        level: "model_checking",
        rule: "Complete enumeration of values in every equal-valued representation: all |c|<=N x 19 scales, the complete 2-5-smooth lattice +-2^i*5^j*m (i<=126, j<=54, m in {1,3,7,9,11,13}) within +-(2^127-1) x 19 scales, and the boundary coefficient alphabet x 19 scales; each value is re-expressed with every number of trailing zeros that fits. Per representation: as_integer_ratio, numerator, denominator, Hash (DefaultHasher with fixed keys) against the reduced fraction and its digest. distinct_nontrivial counts values that have more than one representation.".into(),
        exhaustive: true,
        assumptions: vec!["oracle: Euclid's algorithm on u128, certified by n*10^f == a*d in 512-bit arithmetic".into(), "digests from DefaultHasher::new() (fixed keys)".into()],
        class_name: &class_name,
        required,
        replay: &replay,
    })
}
