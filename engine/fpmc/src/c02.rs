//! C02: multiplication is exact up to 18 digits, else correctly rounded.

use crate::alpha::{self, Level};
use crate::c05::failure_kind;
use crate::model::{self, MulPath};
use crate::pairs::{self, Stages};
use crate::runner::*;
use crate::spec::*;
use crate::{with_form, with_int};
use fpdec::{CheckedMul, RoundingMode};
use serde_json::{json, Value};

// class: kind(2) | mode(3) | neg(1) | rem(2) | last(4) | wide(1) | path(2) | outcome(1: fail)
fn code(kind: u64, mode: usize, neg: bool, rc: RemClass, last: u8, wide: bool, path: MulPath, fails: bool) -> u64 {
    (kind << 14) | ((mode as u64) << 11) | ((neg as u64) << 10) | ((rc as u64) << 8) | ((last as u64) << 4) | ((wide as u64) << 3) | ((path as u64) << 1) | fails as u64
}

fn class_name(c: u64) -> String {
    let kind = ["Decimal*Decimal", "Decimal*int", "int*Decimal", "checked_mul"][(c >> 14) as usize & 3];
    let mode = mode_name(ALL_MODES[((c >> 11) & 7) as usize]);
    let neg = if (c >> 10) & 1 == 1 { "neg" } else { "nonneg" };
    let rc = ["exact", "below-half", "tie", "above-half"][((c >> 8) & 3) as usize];
    let last = (c >> 4) & 15;
    let wide = if (c >> 3) & 1 == 1 { "256-bit product" } else { "i128 product" };
    let path = ["shortcut-zero", "shortcut-one", "exact(p+q<=18)", "rounded(p+q>18)"][((c >> 1) & 3) as usize];
    let fails = if c & 1 == 1 { "overflow" } else { "value" };
    if (c >> 1) & 3 == 3 {
        format!("{}/{}/{}/{}/last={}/{}/{}/{}", kind, path, mode, neg, last, rc, wide, fails)
    } else {
        format!("{}/{}/{}/{}", kind, path, neg, fails)
    }
}

fn check(l: &mut Local, what: &str, pathname: &str, exp: &Expect, got: Out, fail: Out, mk: &dyn Fn() -> Value) {
    l.evals += 1;
    l.outcome(fnv(got.show().as_bytes()));
    if !accepts(exp, &got, &fail) {
        let kind = failure_kind(exp, &got, &fail);
        l.violation(format!("{} | {} | {}", what, pathname, kind), || {
            (format!("{} model={} impl={} case={}", what, show_expect(exp), got.show(), mk()), mk())
        });
    }
}

fn dd_case(a: i128, p: u8, b: i128, q: u8, mode: RoundingMode, all_forms: bool, l: &mut Local) {
    let (x, y) = (dec(a, p), dec(b, q));
    let mk = || json!({"k":"dd","a":a.to_string(),"p":p,"b":b.to_string(),"q":q,"mode":mode_name(mode)});
    let (exp, path, info) = model::mul(a, p, b, q, mode);
    let fails = matches!(exp, Expect::Fail);
    let c = match &info {
        Some(i) => code(0, mode_idx(mode), i.negative, i.rem_class, i.last_digit, i.wide, path, fails),
        None => code(0, 0, (a < 0) != (b < 0), RemClass::Exact, 0, false, path, fails),
    };
    if l.class(c) { l.sample(c, json!({"op":"mul","x":[a.to_string(),p],"y":[b.to_string(),q],"mode":mode_name(mode),"model":show_expect(&exp)})); }
    if path == MulPath::Exact || path == MulPath::Rounded { l.distinct += 1; }
    let pathname = match (path, info.as_ref().map(|i| i.wide)) {
        (MulPath::ShortcutZero, _) => "zero operand",
        (MulPath::ShortcutOne, _) => "operand one",
        (MulPath::Exact, _) => "p+q<=18",
        (MulPath::Rounded, Some(true)) => "p+q>18 product beyond i128",
        (MulPath::Rounded, _) => "p+q>18 product within i128",
    };
    let nforms = if all_forms { 4 } else { 1 };
    for form in 0..nforms {
        check(l, "Decimal*Decimal", pathname, &exp, with_form!(form, x, y, |u, v| out_op(|| u * v)), Out::Panic, &mk);
    }
    if all_forms {
        check(l, "Decimal*=Decimal", pathname, &exp, out_op(|| { let mut z = x; z *= y; z }), Out::Panic, &mk);
    }
    // checked_mul is mode independent: evaluate in two mode phases only
    let mi = mode_idx(mode);
    if mi == 0 || mi == 5 {
        let expc = model::checked_mul(a, p, b, q);
        let cc = code(3, 0, (a < 0) != (b < 0), RemClass::Exact, 0, false, path, matches!(expc, Expect::Fail));
        l.class(cc);
        for form in 0..nforms {
            check(l, "Decimal.checked_mul(Decimal)", pathname, &expc, with_form!(form, x, y, |u, v| out_checked(|| CheckedMul::checked_mul(u, v))), Out::None, &mk);
        }
    }
}

fn di_case(a: i128, p: u8, t: usize, v: i128, all_forms: bool, l: &mut Local) {
    let x = dec(a, p);
    let tn = alpha::INT_TYPES[t];
    let mk = || json!({"k":"di","a":a.to_string(),"p":p,"t":t,"v":v.to_string()});
    let exp = model::mul_int(a, p, v);
    let fails = matches!(exp, Expect::Fail);
    let c = code(1, 0, (a < 0) != (v < 0), RemClass::Exact, 0, false, MulPath::Exact, fails);
    if l.class(c) { l.sample(c, json!({"op":"mul","x":[a.to_string(),p],"int":v.to_string(),"type":tn,"model":show_expect(&exp)})); }
    l.class(code(2, 0, (a < 0) != (v < 0), RemClass::Exact, 0, false, MulPath::Exact, fails));
    l.distinct += 2;
    let nforms = if all_forms { 4 } else { 1 };
    let pathname = if fails { "overflow" } else { "fits" };
    for form in 0..nforms {
        with_int!(t, v, i => {
            check(l, &format!("Decimal*{}", tn), pathname, &exp, with_form!(form, x, i, |u, w| out_op(|| u * w)), Out::Panic, &mk);
            check(l, &format!("{}*Decimal", tn), pathname, &exp, with_form!(form, i, x, |u, w| out_op(|| u * w)), Out::Panic, &mk);
            check(l, &format!("Decimal.checked_mul({})", tn), pathname, &exp, with_form!(form, x, i, |u, w| out_checked(|| CheckedMul::checked_mul(u, w))), Out::None, &mk);
            check(l, &format!("{}.checked_mul(Decimal)", tn), pathname, &exp, with_form!(form, i, x, |u, w| out_checked(|| CheckedMul::checked_mul(u, w))), Out::None, &mk);
        });
    }
    if all_forms {
        with_int!(t, v, i => {
            check(l, &format!("Decimal*={}", tn), pathname, &exp, out_op(|| { let mut z = x; z *= i; z }), Out::Panic, &mk);
        });
    }
}

pub fn replay(w: &Value) -> Vec<(String, String)> {
    let run = Run::new("C02", Tier::Quick);
    let prev = RoundingMode::default();
    run.seq(|l| match w["k"].as_str().unwrap_or("") {
        "seq" => crate::seq::replay_case(w, l),
        "dd" => {
            let mode = mode_from_name(w["mode"].as_str().unwrap()).unwrap();
            RoundingMode::set_default(mode);
            dd_case(w["a"].as_str().unwrap().parse().unwrap(), w["p"].as_u64().unwrap() as u8,
                w["b"].as_str().unwrap().parse().unwrap(), w["q"].as_u64().unwrap() as u8, mode, true, l);
            // checked_mul is only evaluated in phases 0 and 5
            RoundingMode::set_default(ALL_MODES[5]);
            dd_case(w["a"].as_str().unwrap().parse().unwrap(), w["p"].as_u64().unwrap() as u8,
                w["b"].as_str().unwrap().parse().unwrap(), w["q"].as_u64().unwrap() as u8, ALL_MODES[5], true, l);
        }
        "di" => di_case(w["a"].as_str().unwrap().parse().unwrap(), w["p"].as_u64().unwrap() as u8,
            w["t"].as_u64().unwrap() as usize, w["v"].as_str().unwrap().parse().unwrap(), true, l),
        _ => {}
    });
    RoundingMode::set_default(prev);
    run.violations().into_iter().map(|(s, r)| (s, r.detail)).collect()
}

pub fn run(tier: Tier) -> i32 {
    let run = Run::new("C02", tier);
    let lv = if tier.thorough() { Level::Thorough } else { Level::Quick };
    let big = alpha::coeffs(1, 20, if tier.thorough() { Level::Mid } else { Level::Quick });
    let st = Stages::new(if tier.thorough() { 40 } else { 20 }, lv, big);
    let noskip = |_: i128, _: u8, _: i128, _: u8| false;
    let qs = pairs::quotients(lv);

    // S1
    let s1 = st.outers_s1();
    let n = st.s1_n;
    pairs::run_pairs(&run, &s1, &ALL_MODES, &|_, _, _, out| out.extend(-n..=n), &noskip, &|a, p, b, q, m, l| {
        // exact products do not depend on the mode: two phases suffice
        if p + q <= 18 && !(mode_idx(m) == 0 || mode_idx(m) == 5) { return; }
        dd_case(a, p, b, q, m, true, l)
    });
    run.stage("S1 small scope", json!({"|a|,|b|<=":n,"scale_pairs":361,"modes":"8 when p+q>18, 2 otherwise"}));

    // S2a
    let s2a = st.outers_small();
    pairs::run_pairs(&run, &s2a, &ALL_MODES, &|_, _, _, out| out.extend_from_slice(&st.small), &|a, _, b, _| st.in_s1(a, b), &|a, p, b, q, m, l| {
        if p + q <= 18 && !(mode_idx(m) == 0 || mode_idx(m) == 5) { return; }
        dd_case(a, p, b, q, m, false, l)
    });
    run.stage("S2a reduced alphabet x 361 scale pairs", json!({"alphabet":st.small.len()}));

    // S2b: large alphabet x reduced alphabet (both orders) x frame
    let s2b = st.outers_big();
    pairs::run_pairs(&run, &s2b, &ALL_MODES, &|_, _, _, out| out.extend_from_slice(&st.small),
        &|a, _, b, _| st.in_s1(a, b) || st.in_small(a, b), &|a, p, b, q, m, l| {
        if p + q <= 18 && !(mode_idx(m) == 0 || mode_idx(m) == 5) { return; }
        dd_case(a, p, b, q, m, false, l);
        dd_case(b, q, a, p, m, false, l);
    });
    run.stage("S2b large alphabet x reduced alphabet x scale frame, both orders", json!({"large":st.big.len(),"reduced":st.small.len()}));
    if tier.thorough() {
        pairs::run_pairs(&run, &s2b, &ALL_MODES, &|_, _, _, out| out.extend_from_slice(&st.big),
            &|a, _, b, _| st.in_s1(a, b) || st.in_small(a, b) || st.small_set.contains(&a) || st.small_set.contains(&b), &|a, p, b, q, m, l| {
            if p + q <= 18 && !(mode_idx(m) == 0 || mode_idx(m) == 5) { return; }
            dd_case(a, p, b, q, m, false, l);
        });
        run.stage("S2c large alphabet squared x scale frame", json!({"large":st.big.len()}));
    }

    // S3: multipliers (coprime to 10 from small to 120-bit, and 2-5-smooth) x every scale pair with p+q>18
    let mut mults: Vec<i128> = vec![3, 7, 9, 11, 13, 99, 101, 999_999_937, (1 << 61) - 1, (1 << 64) + 13, 18446744073709551629,
        1_000_000_000_000_000_003, 123456789012345678901234567, (1i128 << 100) + 277, 170141183460469231731687303715884105727 / 3,
        (1i128 << 120) + 451, 2, 4, 5, 8, 16, 25, 125, 1 << 20, 1 << 40, 1 << 62, 1 << 70, 5i128.pow(10), 5i128.pow(20), 5i128.pow(30),
        10, 100, 10i128.pow(9), 10i128.pow(18), 10i128.pow(19), 2 * 10i128.pow(17), 5 * 10i128.pow(17), 6, 12, 15, 35, 1 << 126];
    if tier.thorough() {
        for k in [17i128, 19, 23, 29, 31, 37, 41, 43, 47, 53] { mults.push(k); mults.push(k * 10i128.pow(15) + 1); mults.push((1i128 << 90) / k | 1); }
    }
    mults.sort(); mults.dedup();
    let mut s3: Vec<pairs::Outer> = Vec::new();
    for &b in &mults { for sgn in [1i128, -1] { for &(p, q) in &st.all { s3.push((sgn * b, p, q)); } } }
    pairs::run_pairs(&run, &s3, &ALL_MODES, &|b, p, q, out| {
        let s = p as u32 + q as u32;
        if s > 18 { pairs::frontier_mul_round(b, s - 18, &qs, out); } else { pairs::frontier_mul_overflow(b, out); }
    }, &|a, p, b, q| st.in_s1(a, b) || st.in_small(a, b), &|a, p, b, q, m, l| {
        if p + q <= 18 && !(mode_idx(m) == 0 || mode_idx(m) == 5) { return; }
        dd_case(a, p, b, q, m, true, l)
    });
    run.stage("S3 rounding and overflow frontier", json!({"multipliers":mults.len(),"quotients":qs.len(),"residues":"0,1,half-1,half,half+1,10^s-1 (exact via modular inverse for multipliers coprime to 10; exact ties for 2-5-smooth multipliers)"}));

    // operands equal to zero and one in every representation, against the alphabet
    let mut ones: Vec<pairs::Outer> = Vec::new();
    for f in 0..=18u8 { for p in 0..=18u8 { ones.push((alpha::pow10(f as u32), p, f)); ones.push((0, p, f)); ones.push((-alpha::pow10(f as u32), p, f)); } }
    pairs::run_pairs(&run, &ones, &[ALL_MODES[0], ALL_MODES[5], ALL_MODES[7]], &|_, _, _, out| out.extend_from_slice(&st.big), &noskip, &|a, p, b, q, m, l| {
        dd_case(a, p, b, q, m, false, l);
        dd_case(b, q, a, p, m, false, l);
    });
    run.stage("zero and one in every representation", json!({"outers":ones.len()}));

    // integer operands
    let mut items: Vec<(usize, i128, u8)> = Vec::new();
    for t in 0..9 { for v in alpha::int_values(t, lv, &[]) { for p in 0..=18u8 { items.push((t, v, p)); } } }
    run.par_for(&items, || {}, |&(t, v, p), l| {
        let mut xs: Vec<i128> = st.small.clone();
        pairs::frontier_mul_overflow(v, &mut xs);
        xs.retain(|x| *x != i128::MIN);
        xs.sort(); xs.dedup();
        for a in xs { di_case(a, p, t, v, true, l); }
    });
    run.stage("integer operands", json!({"types":9,"operand_tuples":items.len()}));

    // sequence exploration: chained operations from a seed set, results fed back as operands
    {
        let (d, cap) = if tier.thorough() { (3, 12000) } else { (2, 3000) };
        let modes: Vec<RoundingMode> = if tier.thorough() { ALL_MODES.to_vec() } else { vec![ALL_MODES[5], ALL_MODES[3], ALL_MODES[0]] };
        let (st, tr) = crate::seq::explore(&run, &[crate::seq::SOp::Mul], d, cap, &modes);
        run.stage("sequence exploration (breadth-first over reachable Decimals)", json!({"depth": d, "states": st, "transitions": tr, "modes": modes.len()}));
        run.set_extra("sequence_exploration", json!({"depth": d, "states": st, "transitions": tr, "seeds": crate::seq::seeds().len(), "state_cap_per_level": cap}));
    }

    // required: rounded path: every mode x sign x rem class x {narrow, wide}; last digit 0/5 and others
    let mut required: Vec<Vec<u64>> = Vec::new();
    for m in 0..8 { for neg in [false, true] { for rc in [RemClass::Exact, RemClass::BelowHalf, RemClass::Tie, RemClass::AboveHalf] { for wide in [false, true] {
        for lastset in [vec![0u8, 5], vec![1, 3, 7, 9], vec![2, 4, 6, 8]] {
            required.push(lastset.iter().map(|&ld| code(0, m, neg, rc, ld, wide, MulPath::Rounded, false)).collect());
        }
    }}}
        // overflow on the rounded path
        required.push((0..10u8).flat_map(|ld| [false, true].into_iter().flat_map(move |neg| [RemClass::Exact, RemClass::BelowHalf, RemClass::Tie, RemClass::AboveHalf].into_iter().map(move |rc| code(0, m, neg, rc, ld, true, MulPath::Rounded, true)))).collect());
    }
    for path in [MulPath::ShortcutZero, MulPath::ShortcutOne, MulPath::Exact] { for neg in [false, true] {
        if path == MulPath::ShortcutZero && neg { continue; }
        required.push(vec![code(0, 0, neg, RemClass::Exact, 0, false, path, false)]);
    }}
    required.push(vec![code(0, 0, false, RemClass::Exact, 0, false, MulPath::Exact, true), code(0, 0, true, RemClass::Exact, 0, false, MulPath::Exact, true)]);
    for kind in [1u64, 2] { for fails in [false, true] { for neg in [false, true] {
        required.push(vec![code(kind, 0, neg, RemClass::Exact, 0, false, MulPath::Exact, fails)]);
    }}}

    finish(Finish {
        run: &run,
        level: "model_checking",
        rule: "Complete enumeration of operand tuples (a,p,b,q) x thread-default mode: S1 all |a|,|b|<=N x 361 scale pairs; S2 boundary alphabets crossed (reduced x reduced x 361 pairs; large x reduced x 72-pair frame in both operand orders; thorough: large x large); S3 result-side frontier: for 50+ multipliers (coprime to 10 up to 120 bits, 2-5-smooth, powers of ten) and every scale pair the multiplicands whose product has cut-off digits exactly / next to 0, 1, half-1, half, half+1, 10^s-1 for each quotient of the quotient alphabet (incl. quotients forcing the 256-bit path and the representability limit), and the exact-product overflow frontier; zero and one in all 19 representations; integer operands of all 9 types in both positions. Mode phases: 8 modes when p+q>18, 2 otherwise. distinct_nontrivial counts distinct (tuple, mode) not taking a zero/one shortcut.".into(),
        exhaustive: true,
        assumptions: vec![
            "reference model: exact 512-bit product, single rounding on (truncated quotient, remainder vs half, sign, last digit)".into(),
            "scale left open when an operand equals zero or one (property text); -2^127 accepted either way".into(),
        ],
        class_name: &class_name,
        required,
        replay: &replay,
    })
}
