//! C08: equality and ordering are by numeric value and form a total order.

use crate::alpha::{self, Level};
use crate::big::I512;
use crate::pairs::{self, Stages};
use crate::runner::*;
use crate::with_int;
use fpdec::{Decimal, RoundingMode};
use serde_json::{json, Value};
use std::cmp::Ordering;
const M: i128 = i128::MAX;

pub fn model_cmp(a: i128, p: u8, b: i128, q: u8) -> Ordering {
    let m = p.max(q);
    I512::from_i128(a).mul_pow10((m - p) as u32).cmp(&I512::from_i128(b).mul_pow10((m - q) as u32))
}

fn overflow_class(a: i128, p: u8, b: i128, q: u8) -> u64 {
    // does aligning the side with fewer digits leave i128?
    let m = p.max(q);
    let aa = I512::from_i128(a).mul_pow10((m - p) as u32);
    let bb = I512::from_i128(b).mul_pow10((m - q) as u32);
    if aa.to_i128().is_none() { 1 } else if bb.to_i128().is_none() { 2 } else { 0 }
}

// class: kind(2: dd, di, id) | ord(2) | ovf(2) | sa(2) | sb(2)
fn sgn(v: i128) -> u64 { if v < 0 { 2 } else if v == 0 { 0 } else { 1 } }
fn code(kind: u64, ord: Ordering, ovf: u64, a: i128, b: i128) -> u64 {
    (kind << 8) | ((ord as i8 + 1) as u64) << 6 | (ovf << 4) | (sgn(a) << 2) | sgn(b)
}
fn class_name(c: u64) -> String {
    format!("{}/{}/{}/lhs {}/rhs {}", ["Decimal,Decimal", "Decimal,int", "int,Decimal", "?"][(c >> 8) as usize & 3], ["Less", "Equal", "Greater", "?"][((c >> 6) & 3) as usize],
        ["alignment fits", "left alignment overflows", "right alignment overflows", "?"][((c >> 4) & 3) as usize], ["zero", "positive", "negative", "?"][((c >> 2) & 3) as usize], ["zero", "positive", "negative", "?"][(c & 3) as usize])
}

fn report(l: &mut Local, what: &str, ovf: u64, ord: Ordering, a: i128, b: i128, got: String, want: String, mk: &dyn Fn() -> Value) {
    let site = format!("{} | {} / expected {:?} / signs {}{} | wrong result", what, ["alignment fits", "left alignment overflows", "right alignment overflows"][ovf as usize], ord,
        ["0", "+", "-"][sgn(a) as usize], ["0", "+", "-"][sgn(b) as usize]);
    l.violation(site, || (format!("{}: got {} expected {} case={}", what, got, want, mk()), mk()));
}

macro_rules! chk {
    ($l:expr, $what:expr, $ovf:expr, $ord:expr, $a:expr, $b:expr, $mk:expr, $got:expr, $want:expr) => {{
        $l.evals += 1;
        match catch(|| $got) {
            Ok(g) => { if g != $want { report($l, $what, $ovf, $ord, $a, $b, format!("{:?}", g), format!("{:?}", $want), $mk); } }
            Err(()) => report($l, $what, $ovf, $ord, $a, $b, "Panic".to_string(), format!("{:?}", $want), $mk),
        }
    }};
}

pub fn dd_case(a: i128, p: u8, b: i128, q: u8, l: &mut Local) {
    let (x, y) = (Decimal::new_raw(a, p), Decimal::new_raw(b, q));
    let ord = model_cmp(a, p, b, q);
    let ovf = overflow_class(a, p, b, q);
    let c = code(0, ord, ovf, a, b);
    if l.class(c) { l.sample(c, json!({"x": [a.to_string(), p], "y": [b.to_string(), q], "model": format!("{:?}", ord)})); }
    l.distinct += 1;
    let mk = || json!({"k": "dd", "a": a.to_string(), "p": p, "b": b.to_string(), "q": q});
    chk!(l, "Decimal==Decimal", ovf, ord, a, b, &mk, x == y, ord == Ordering::Equal);
    chk!(l, "Decimal!=Decimal", ovf, ord, a, b, &mk, x != y, ord != Ordering::Equal);
    chk!(l, "Decimal<Decimal", ovf, ord, a, b, &mk, x < y, ord == Ordering::Less);
    chk!(l, "Decimal<=Decimal", ovf, ord, a, b, &mk, x <= y, ord != Ordering::Greater);
    chk!(l, "Decimal>Decimal", ovf, ord, a, b, &mk, x > y, ord == Ordering::Greater);
    chk!(l, "Decimal>=Decimal", ovf, ord, a, b, &mk, x >= y, ord != Ordering::Less);
    chk!(l, "Decimal.cmp(Decimal)", ovf, ord, a, b, &mk, x.cmp(&y), ord);
    chk!(l, "Decimal.partial_cmp(Decimal)", ovf, ord, a, b, &mk, x.partial_cmp(&y), Some(ord));
    // min / max return the operand that is numerically smaller / larger (Rust: min returns self on Equal, max returns other)
    let raw = |d: Decimal| (d.coefficient(), d.n_frac_digits());
    chk!(l, "Decimal.min(Decimal)", ovf, ord, a, b, &mk, raw(x.min(y)), if ord == Ordering::Greater { (b, q) } else { (a, p) });
    chk!(l, "Decimal.max(Decimal)", ovf, ord, a, b, &mk, raw(x.max(y)), if ord == Ordering::Greater { (a, p) } else { (b, q) });
}

pub fn di_case(a: i128, p: u8, t: usize, v: i128, l: &mut Local) {
    let x = Decimal::new_raw(a, p);
    let ord = model_cmp(a, p, v, 0);
    let ovf = overflow_class(a, p, v, 0);
    let c = code(1, ord, ovf, a, v);
    let tn = alpha::INT_TYPES[t];
    if l.class(c) { l.sample(c, json!({"x": [a.to_string(), p], "int": v.to_string(), "type": tn, "model": format!("{:?}", ord)})); }
    l.class(code(2, ord.reverse(), [0, 2, 1][ovf as usize], v, a));
    l.distinct += 2;
    let mk = || json!({"k": "di", "a": a.to_string(), "p": p, "t": t, "v": v.to_string()});
    with_int!(t, v, i => {
        chk!(l, &format!("Decimal=={}", tn), ovf, ord, a, v, &mk, x == i, ord == Ordering::Equal);
        chk!(l, &format!("Decimal!={}", tn), ovf, ord, a, v, &mk, x != i, ord != Ordering::Equal);
        chk!(l, &format!("Decimal<{}", tn), ovf, ord, a, v, &mk, x < i, ord == Ordering::Less);
        chk!(l, &format!("Decimal<={}", tn), ovf, ord, a, v, &mk, x <= i, ord != Ordering::Greater);
        chk!(l, &format!("Decimal>{}", tn), ovf, ord, a, v, &mk, x > i, ord == Ordering::Greater);
        chk!(l, &format!("Decimal>={}", tn), ovf, ord, a, v, &mk, x >= i, ord != Ordering::Less);
        chk!(l, &format!("Decimal.partial_cmp({})", tn), ovf, ord, a, v, &mk, x.partial_cmp(&i), Some(ord));
        let r = ord.reverse();
        chk!(l, &format!("{}==Decimal", tn), ovf, r, v, a, &mk, i == x, r == Ordering::Equal);
        chk!(l, &format!("{}!=Decimal", tn), ovf, r, v, a, &mk, i != x, r != Ordering::Equal);
        chk!(l, &format!("{}<Decimal", tn), ovf, r, v, a, &mk, i < x, r == Ordering::Less);
        chk!(l, &format!("{}<=Decimal", tn), ovf, r, v, a, &mk, i <= x, r != Ordering::Greater);
        chk!(l, &format!("{}>Decimal", tn), ovf, r, v, a, &mk, i > x, r == Ordering::Greater);
        chk!(l, &format!("{}>=Decimal", tn), ovf, r, v, a, &mk, i >= x, r != Ordering::Less);
        chk!(l, &format!("{}.partial_cmp(Decimal)", tn), ovf, r, v, a, &mk, i.partial_cmp(&x), Some(r));
    });
}

pub fn replay(w: &Value) -> Vec<(String, String)> {
    let run = Run::new("C08", Tier::Quick);
    let g = |k: &str| -> i128 { w[k].as_str().unwrap().parse().unwrap() };
    run.seq(|l| match w["k"].as_str().unwrap_or("") {
        "dd" => dd_case(g("a"), w["p"].as_u64().unwrap() as u8, g("b"), w["q"].as_u64().unwrap() as u8, l),
        "di" => di_case(g("a"), w["p"].as_u64().unwrap() as u8, w["t"].as_u64().unwrap() as usize, g("v"), l),
        "sort" => sort_check(w["n"].as_u64().unwrap() as usize, l),
        _ => {}
    });
    run.violations().into_iter().map(|(s, r)| (s, r.detail)).collect()
}

/// Equal-value family of (b, q): every representation with 0..18 trailing
/// zeros that fits, and +-1 in the last place of each, as `a` at scale p.
fn equal_family(b: i128, p: u8, q: u8, out: &mut Vec<i128>) {
    // a at scale p equal to b at scale q: a = b * 10^(p-q) (p >= q) or b / 10^(q-p) if divisible
    let v = if p >= q { I512::from_i128(b).mul_pow10((p - q) as u32) } else {
        let d = crate::big::U512::pow10((q - p) as u32);
        let (qq, r) = I512::from_i128(b).mag.divrem(&d);
        let base = I512::new(b < 0, qq);
        // not representable exactly at scale p: neighbours straddle the value
        let _ = r;
        base
    };
    for dl in [-1i128, 0, 1] { if let Some(x) = pairs::clip(&v.add(&I512::from_i128(dl))) { out.push(x); } }
}

/// Sort a deterministic sample of the operand alphabet with the
/// implementation's Ord and compare with the model's order; checks that the
/// relation is a total order on the set (any inconsistency makes sort results differ
/// or the pairwise check below fail).
fn sort_check(n: usize, l: &mut Local) {
    let k = alpha::coeffs_small(Level::Quick);
    let mut v: Vec<(i128, u8)> = Vec::new();
    for (i, &a) in k.iter().enumerate() { for p in 0..=18u8 { if (i + p as usize) % 3 == 0 { v.push((a, p)); } } }
    v.truncate(n.max(10));
    let mut by_impl: Vec<Decimal> = v.iter().map(|&(a, p)| Decimal::new_raw(a, p)).collect();
    let res = catch(|| { by_impl.sort(); by_impl });
    l.evals += 1;
    match res {
        Err(()) => l.violation("sort by Ord | alphabet sample | panicked".into(), || ("sort panicked (inconsistent order or cmp panic)".into(), json!({"k": "sort", "n": n}))),
        Ok(sorted) => {
            for w in sorted.windows(2) {
                let (x, y) = (w[0], w[1]);
                if model_cmp(x.coefficient(), x.n_frac_digits(), y.coefficient(), y.n_frac_digits()) == Ordering::Greater {
                    l.violation("sort by Ord | alphabet sample | not ascending by numeric value".into(), || (format!("{:?} placed before {:?}", x, y), json!({"k": "sort", "n": n})));
                    break;
                }
            }
        }
    }
}

pub fn run(tier: Tier) -> i32 {
    let run = Run::new("C08", tier);
    let lv = if tier.thorough() { Level::Thorough } else { Level::Quick };
    let big = alpha::coeffs(1, 20, if tier.thorough() { Level::Mid } else { Level::Quick });
    let st = Stages::new(if tier.thorough() { 60 } else { 30 }, lv, big);
    let none = [RoundingMode::RoundHalfEven];
    let noskip = |_: i128, _: u8, _: i128, _: u8| false;

    let s1 = st.outers_s1();
    let n = st.s1_n;
    pairs::run_pairs(&run, &s1, &none, &|_, _, _, out| out.extend(-n..=n), &noskip, &|a, p, b, q, _, l| dd_case(a, p, b, q, l));
    run.stage("S1 small scope", json!({"|a|,|b|<=": n, "scale_pairs": 361}));
    let s2a = st.outers_small();
    pairs::run_pairs(&run, &s2a, &none, &|_, _, _, out| out.extend_from_slice(&st.small), &|a, _, b, _| st.in_s1(a, b), &|a, p, b, q, _, l| dd_case(a, p, b, q, l));
    run.stage("S2a reduced alphabet x 361 scale pairs", json!({"alphabet": st.small.len()}));
    let s2b = st.outers_big();
    pairs::run_pairs(&run, &s2b, &none, &|_, _, _, out| out.extend_from_slice(&st.big), &|a, _, b, _| st.in_s1(a, b) || st.in_small(a, b), &|a, p, b, q, _, l| dd_case(a, p, b, q, l));
    run.stage("S2b large alphabet squared x scale frame", json!({"alphabet": st.big.len()}));
    // S3: equal-value families: for every b of the large alphabet and all 361 scale pairs the a that equals it (+-1 in the last place)
    let mut s3: Vec<pairs::Outer> = Vec::new();
    for &b in &st.big { for &(p, q) in &st.all { s3.push((b, p, q)); } }
    pairs::run_pairs(&run, &s3, &none, &|b, p, q, out| equal_family(b, p, q, out), &|a, _, b, _| st.in_s1(a, b), &|a, p, b, q, _, l| { dd_case(a, p, b, q, l); dd_case(b, q, a, p, l); });
    run.stage("S3 equal-value families", json!({"values": st.big.len(), "scale_pairs": 361, "variants": "exact re-expression and +-1 in its last place, both operand orders"}));

    // S4: wrap-collision partners: for every coefficient c of the large alphabet and every scale shift k, the value d that
    // c*10^k collapses to when the alignment is done in wrapping 128-bit (or 64-bit) arithmetic: (c, p) and (d, p+k)
    // differ by a factor of 1.3 .. 10^18, but an equality test on wrapped products sees identical bits (seeded change
    // C08-h1). Both operand orders, p = 0 and p = 18-k.
    {
        let items: Vec<(i128, u8)> = st.big.iter().flat_map(|&c| (1..=18u8).map(move |k| (c, k))).collect();
        run.par_for(&items, || {}, |&(c, k), l| {
            if c == 0 { return; }
            let m = c.unsigned_abs();
            let t = alpha::pow10(k as u32) as u128;
            let mut partners: Vec<u128> = Vec::new();
            if m.checked_mul(t).is_none() { partners.push(m.wrapping_mul(t)); }              // wrapped at 2^128
            if m.checked_mul(t).map(|v| v > i128::MAX as u128).unwrap_or(false) { partners.push(m * t - (1u128 << 127)); } // lost sign bit
            if m < (1u128 << 64) && m.checked_mul(t).map(|v| v >> 64 != 0).unwrap_or(true) { partners.push((m as u64).wrapping_mul(t as u64) as u128); } // wrapped at 2^64
            for w in partners {
                if w == 0 || w > i128::MAX as u128 { continue; }
                let d = if c < 0 { -(w as i128) } else { w as i128 };
                for p in [0u8, 18 - k] { dd_case(c, p, d, p + k, l); dd_case(d, p + k, c, p, l); l.distinct += 2; }
            }
        });
        run.stage("S4 wrap-collision partners", json!({"coefficients": st.big.len(), "shifts": 18, "wraps": "2^128, lost sign bit (2^127), 2^64"}));
    }

    // integers: Decimal alphabet x each type's values, both orders; plus the equal family
    let mut items: Vec<(usize, i128, u8)> = Vec::new();
    for t in 0..9 { for v in alpha::int_values(t, lv, &[]) { for p in 0..=18u8 { items.push((t, v, p)); } } }
    run.par_for(&items, || {}, |&(t, v, p), l| {
        let mut xs: Vec<i128> = st.small.clone();
        equal_family(v, p, 0, &mut xs);
        let tpk = M / alpha::pow10(p as u32);
        for v in [tpk.saturating_sub(1), tpk, tpk.saturating_add(1), M, M - 1] { xs.push(v); xs.push(-v); }
        xs.retain(|x| *x != i128::MIN); xs.sort(); xs.dedup();
        for a in xs { di_case(a, p, t, v, l); }
    });
    run.stage("integer comparisons", json!({"types": 9, "operand_tuples": items.len()}));

    run.seq(|l| { for n in [50usize, 400, 1200] { sort_check(n, l); } });
    run.stage("sort by Ord vs model order", json!({"sizes": [50, 400, 1200]}));

    let mut required: Vec<Vec<u64>> = Vec::new();
    for ord in [Ordering::Less, Ordering::Equal, Ordering::Greater] {
        required.push(vec![code(0, ord, 0, 1, 1)]);
        required.push(vec![code(0, ord, 0, -1, -1)]);
    }
    // alignment overflow with every sign pattern
    for ovf in [1u64, 2] { for (a, b) in [(1i128, 1i128), (-1, -1), (1, -1), (-1, 1), (1, 0), (-1, 0), (0, 1), (0, -1)] {
        // the side that overflows cannot be zero
        if (ovf == 1 && a == 0) || (ovf == 2 && b == 0) { continue; }
        let ord = if ovf == 1 { if a > 0 { Ordering::Greater } else { Ordering::Less } } else if b > 0 { Ordering::Less } else { Ordering::Greater };
        required.push(vec![code(0, ord, ovf, a, b)]);
    }}
    for kind in [1u64, 2] { for ord in [Ordering::Less, Ordering::Equal, Ordering::Greater] { for ovf in 0..3u64 {
        if ord == Ordering::Equal && ovf != 0 { continue; }
        if (kind == 1 && ovf == 1) || (kind == 2 && ovf == 2) { continue; } // the Decimal side is never up-scaled against an integer
        let mut g = Vec::new();
        for a in [1i128, 0, -1] { for b in [1i128, 0, -1] { g.push(code(kind, ord, ovf, a, b)); } }
        required.push(g);
    }}}

    finish(Finish {
        run: &run,
        level: "model_checking",
        rule: "Complete enumeration of operand pairs: S1 all |a|,|b|<=N x 361 scale pairs; S2 boundary alphabets crossed (reduced squared x 361, large squared x 72-pair frame, which contains every sign pattern of alignment overflow); S3 equal-value families: every value of the large alphabet re-expressed at every other scale, exact and +-1 in the last place, both operand orders; Decimal vs each of the 9 integer types in both orders on boundary values and floor(M/10^p)+-1. Ten relations per Decimal pair (== != < <= > >= cmp partial_cmp min max), fourteen per integer pair. Agreement of every pair with the exact rational order implies reflexivity, antisymmetry and transitivity on the enumerated set; additionally alphabet samples are sorted with the implementation's Ord.".into(),
        exhaustive: true,
        assumptions: vec!["oracle: sign of a*10^q - b*10^p in 512-bit arithmetic".into(), "rkyv archive/compare clauses are explored by the feature builds (see coverage.rkyv_builds)".into()],
        class_name: &class_name,
        required,
        replay: &replay,
    })
}

// ---------------------------------------------------------------------------
// rkyv clause: built only with `--features rkyv` (derived Archive) and
// `--features rkyv,packed` (manual Archive); run as property id "C08R".
#[cfg(feature = "rkyv")]
pub mod rk {
    use super::*;
    use fpdec::ArchivedDecimal;
    use rkyv::Deserialize;

    fn roundtrip(d: Decimal) -> Result<(Decimal, rkyv::AlignedVec), String> {
        let bytes = rkyv::to_bytes::<_, 256>(&d).map_err(|e| format!("to_bytes: {}", e))?;
        let archived = rkyv::check_archived_root::<Decimal>(&bytes[..]).map_err(|e| format!("check_archived_root: {}", e))?;
        let back: Decimal = archived.deserialize(&mut rkyv::Infallible).map_err(|_| "deserialize".to_string())?;
        Ok((back, bytes))
    }

    fn pair_case(a: i128, p: u8, b: i128, q: u8, l: &mut Local) {
        let (x, y) = (Decimal::new_raw(a, p), Decimal::new_raw(b, q));
        let ord = model_cmp(a, p, b, q);
        let ovf = overflow_class(a, p, b, q);
        let mk = || json!({"k": "rk", "a": a.to_string(), "p": p, "b": b.to_string(), "q": q});
        let c = code(0, ord, ovf, a, b);
        l.class(c);
        l.distinct += 1;
        let (rx, ry) = match (catch(|| roundtrip(x)), catch(|| roundtrip(y))) {
            (Ok(Ok(rx)), Ok(Ok(ry))) => (rx, ry),
            (ex, ey) => { l.violation("rkyv archive/deserialize | any | failed or panicked".into(), || (format!("{:?} / {:?}", ex.map(|r| r.map(|t| t.0)), ey.map(|r| r.map(|t| t.0))), mk())); return; }
        };
        l.evals += 2;
        for (orig, back) in [(x, rx.0), (y, ry.0)] {
            if (orig.coefficient(), orig.n_frac_digits()) != (back.coefficient(), back.n_frac_digits()) {
                l.violation("rkyv archive/deserialize | round trip | not the identity".into(), || (format!("{:?} -> {:?}", orig, back), mk()));
            }
        }
        let ax: &ArchivedDecimal = unsafe { rkyv::archived_root::<Decimal>(&rx.1[..]) };
        let ay: &ArchivedDecimal = unsafe { rkyv::archived_root::<Decimal>(&ry.1[..]) };
        if (ax.coefficient(), ax.n_frac_digits()) != (a, p) {
            l.violation("ArchivedDecimal accessors | any | differ from the archived value".into(), || (format!("({},{}) archived as ({},{})", a, p, ax.coefficient(), ax.n_frac_digits()), mk()));
        }
        chk!(l, "Archived==Archived", ovf, ord, a, b, &mk, ax == ay, ord == Ordering::Equal);
        chk!(l, "Archived<Archived", ovf, ord, a, b, &mk, ax < ay, ord == Ordering::Less);
        chk!(l, "Archived>=Archived", ovf, ord, a, b, &mk, ax >= ay, ord != Ordering::Less);
        chk!(l, "Archived.cmp(Archived)", ovf, ord, a, b, &mk, ax.cmp(ay), ord);
        chk!(l, "Archived.partial_cmp(Archived)", ovf, ord, a, b, &mk, ax.partial_cmp(ay), Some(ord));
        chk!(l, "Archived==Decimal", ovf, ord, a, b, &mk, *ax == y, ord == Ordering::Equal);
        chk!(l, "Archived.partial_cmp(Decimal)", ovf, ord, a, b, &mk, ax.partial_cmp(&y), Some(ord));
        chk!(l, "Archived<Decimal", ovf, ord, a, b, &mk, *ax < y, ord == Ordering::Less);
        chk!(l, "Decimal==Archived", ovf, ord, a, b, &mk, x == *ay, ord == Ordering::Equal);
        chk!(l, "Decimal.partial_cmp(Archived)", ovf, ord, a, b, &mk, x.partial_cmp(ay), Some(ord));
        chk!(l, "Decimal>Archived", ovf, ord, a, b, &mk, x > *ay, ord == Ordering::Greater);
        chk!(l, "Archived predicates", ovf, ord, a, b, &mk, (ax.eq_zero(), ax.is_negative(), ax.is_positive(), ax.eq_one()), (a == 0, a < 0, a > 0, a == alpha::pow10(p as u32)));
    }

    pub fn replay(w: &Value) -> Vec<(String, String)> {
        let run = Run::new("C08R", Tier::Quick);
        let g = |k: &str| -> i128 { w[k].as_str().unwrap().parse().unwrap() };
        run.seq(|l| pair_case(g("a"), w["p"].as_u64().unwrap() as u8, g("b"), w["q"].as_u64().unwrap() as u8, l));
        run.violations().into_iter().map(|(s, r)| (s, r.detail)).collect()
    }

    pub fn run(tier: Tier) -> i32 {
        let run = Run::new("C08R", tier);
        let lv = if tier.thorough() { Level::Thorough } else { Level::Quick };
        let big = alpha::coeffs(1, 20, Level::Quick);
        let st = Stages::new(if tier.thorough() { 30 } else { 12 }, lv, big);
        let none = [RoundingMode::RoundHalfEven];
        let noskip = |_: i128, _: u8, _: i128, _: u8| false;
        let s1 = st.outers_s1();
        let n = st.s1_n;
        pairs::run_pairs(&run, &s1, &none, &|_, _, _, out| out.extend(-n..=n), &noskip, &|a, p, b, q, _, l| pair_case(a, p, b, q, l));
        let s2: Vec<pairs::Outer> = st.outers_small().into_iter().filter(|&(_, p, q)| p == 0 || q == 0 || p == 18 || q == 18).collect();
        pairs::run_pairs(&run, &s2, &none, &|_, _, _, out| out.extend_from_slice(&st.small), &|a, _, b, _| st.in_s1(a, b), &|a, p, b, q, _, l| pair_case(a, p, b, q, l));
        let mut s3: Vec<pairs::Outer> = Vec::new();
        for &b in &st.small { for &(p, q) in &st.all { s3.push((b, p, q)); } }
        pairs::run_pairs(&run, &s3, &none, &|b, p, q, out| equal_family(b, p, q, out), &|a, _, b, _| st.in_s1(a, b), &|a, p, b, q, _, l| pair_case(a, p, b, q, l));
        run.stage("rkyv pairs", json!({"feature_packed": cfg!(feature = "packed"), "small_scope": n, "alphabet": st.small.len()}));
        run.set_extra("feature_set", json!(if cfg!(feature = "packed") { "rkyv,packed (manual Archive impl)" } else { "rkyv (derived Archive)" }));
        let mut required: Vec<Vec<u64>> = Vec::new();
        for ord in [Ordering::Less, Ordering::Equal, Ordering::Greater] { required.push(vec![code(0, ord, 0, 1, 1)]); }
        for ovf in [1u64, 2] { required.push((0..16u64).flat_map(|s| [Ordering::Less, Ordering::Greater].into_iter().map(move |o| (0u64 << 8) | ((o as i8 + 1) as u64) << 6 | (ovf << 4) | s)).collect()); }
        finish(Finish {
            run: &run, level: "model_checking",
            rule: "Complete enumeration of operand pairs (small scope, reduced alphabet squared x scale frame, equal-value families): archive -> check_archived_root -> deserialize is the identity on (coefficient, scale); ArchivedDecimal vs ArchivedDecimal / Decimal comparisons agree with the exact rational order.".into(),
            exhaustive: true, assumptions: vec!["oracle: sign of a*10^q - b*10^p in 512-bit arithmetic".into()],
            class_name: &class_name, required, replay: &replay,
        })
    }
}
