//! C16 without the floor kernels: the engine was built without feature hidden-floor because the build against
//! the crate's #[doc(hidden)] helpers failed (their names or signatures changed). C16's second sentence is about
//! exactly those wide operations, so the check cannot decide the property: that is a machinery failure (exit 2),
//! never a verdict.
use crate::runner::Tier;
use serde_json::Value;

pub fn run(_tier: Tier) -> i32 {
    eprintln!("MACHINERY-FAILURE: C16 needs fpdec_core::{{i256_div_mod_floor, i128_shifted_div_mod_floor}} with their pinned signatures; the engine was built without them (see target/build.log)");
    2
}

pub fn replay(_w: &Value) -> Vec<(String, String)> {
    eprintln!("MACHINERY-FAILURE: C16 replay needs the hidden kernels (engine built without feature hidden-floor)");
    std::process::exit(2);
}
