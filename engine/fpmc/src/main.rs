#![allow(dead_code)]
//! fpmc — bounded exhaustive explorers for the fpdec.rs properties.
//! Usage: fpmc <ID> quick|thorough   |   fpmc replay <path>

mod alpha;
mod big;
mod forms;
mod frontier;
mod model;
mod oracle;
mod pairs;
mod runner;
mod seq;
mod spec;

mod c01;
mod c02;
mod c03;
mod c04;
mod c10;
#[cfg(feature = "hidden-floor")]
mod c16;
#[cfg(not(feature = "hidden-floor"))]
#[path = "c16_stub.rs"]
mod c16;
mod c17;
mod c18;
mod c19;
mod c20;
mod c05;
mod c06;
mod c07;
mod c08;
mod c09;
mod c11;
mod c12;
mod c13;
mod c14;
mod c15;

use runner::Tier;

fn dispatch_replay(prop: &str, w: &serde_json::Value) -> Vec<(String, String)> {
    match prop {
        "C01" => c01::replay(w),
        "C02" => c02::replay(w),
        "C03" => c03::replay(w),
        "C04" => c04::replay(w),
        "C05" => c05::replay(w),
        "C06" => c06::replay(w),
        "C07" => c07::replay(w),
        "C08" => c08::replay(w),
        #[cfg(feature = "rkyv")]
        "C08R" => c08::rk::replay(w),
        "C09" => c09::replay(w),
        "C10" => c10::replay(w),
        "C11" => c11::replay(w),
        "C12" => c12::replay(w),
        "C13" => c13::replay(w),
        "C14" => c14::replay(w),
        "C15" => c15::replay(w),
        "C16" => c16::replay(w),
        "C17" => c17::replay(w),
        "C18" => c18::replay(w),
        "C19" => c19::replay(w),
        "C20" => c20::replay(w),
        _ => vec![],
    }
}

fn main() {
    runner::install_panic_hook();
    let args: Vec<String> = std::env::args().collect();
    if args.len() < 3 {
        eprintln!("usage: fpmc <ID> quick|thorough | fpmc replay <path>");
        std::process::exit(2);
    }
    if args[1] == "oracle-dump" {
        let n = oracle::dump(&args[2]).expect("write oracle dump");
        println!("oracle records written: {}", n);
        return;
    }
    if args[1] == "c06-guard" {
        c06::guard_main(if args[2] == "thorough" { Tier::Thorough } else { Tier::Quick });
        return;
    }
    if args[1] == "c19-exec" {
        c19::executor_main();
        return;
    }
    if args[1] == "replay" {
        let txt = std::fs::read_to_string(&args[2]).expect("read replay file");
        let v: serde_json::Value = serde_json::from_str(&txt).expect("parse replay file");
        let prop = v["property"].as_str().unwrap_or("").to_string();
        println!("replaying {} witness {}", prop, v["witness"]);
        let found = dispatch_replay(&prop, &v["witness"]);
        if found.is_empty() {
            println!("no violation on replay (model and implementation agree)");
            std::process::exit(0);
        }
        for (site, detail) in found {
            println!("VIOLATION reproduced: site={}", site);
            println!("  {}", detail);
        }
        std::process::exit(1);
    }
    let tier = match args[2].as_str() {
        "quick" => Tier::Quick,
        "thorough" => Tier::Thorough,
        _ => {
            eprintln!("tier must be quick or thorough");
            std::process::exit(2);
        }
    };
    // a panic of the machinery itself (reference model capacity, executor failure, ...) is a machinery
    // failure (exit 2), never a verdict
    let code = std::panic::catch_unwind(|| match args[1].as_str() {
        "C01" => c01::run(tier),
        "C02" => c02::run(tier),
        "C03" => c03::run(tier),
        "C04" => c04::run(tier),
        "C05" => c05::run(tier),
        "C06" => c06::run(tier),
        "C07" => c07::run(tier),
        "C08" => c08::run(tier),
        #[cfg(feature = "rkyv")]
        "C08R" => c08::rk::run(tier),
        "C09" => c09::run(tier),
        "C10" => c10::run(tier),
        "C11" => c11::run(tier),
        "C12" => c12::run(tier),
        "C13" => c13::run(tier),
        "C14" => c14::run(tier),
        "C15" => c15::run(tier),
        "C16" => c16::run(tier),
        "C17" => c17::run(tier),
        "C18" => c18::run(tier),
        "C19" => c19::run(tier),
        "C20" => c20::run(tier),
        other => {
            eprintln!("unknown property {}", other);
            2
        }
    })
    .unwrap_or_else(|_| {
        eprintln!("MACHINERY-FAILURE: the explorer panicked (see message above)");
        2
    });
    std::process::exit(code);
}
