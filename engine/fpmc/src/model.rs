//! Per-operation reference models (pure functions from inputs to the set of
//! acceptable outcomes), written from the property texts.

use crate::big::{I512, U512};
use crate::spec::*;
use fpdec::RoundingMode;

fn i(v: i128) -> I512 {
    I512::from_i128(v)
}

/// Is v inside the full i128 range [-2^127, 2^127-1]?
fn in_i128(v: &I512) -> bool {
    v.to_i128().is_some()
}

#[derive(Clone, Copy, PartialEq, Eq, Debug)]
pub enum AddClass {
    Fits,
    AtLimit,
    OnePast,
    OperandPast,
    Far,
    MinEdge,
}

/// C01: x ± y with scales p, q. Result scale max(p,q).
pub fn add_sub(a: i128, p: u8, b: i128, q: u8, sub: bool) -> (Expect, AddClass) {
    let m = p.max(q);
    let aa = i(a).mul_pow10((m - p) as u32);
    let bb = i(b).mul_pow10((m - q) as u32);
    let r = if sub { aa.sub(&bb) } else { aa.add(&bb) };
    let op_past = !in_i128(&aa) || !in_i128(&bb);
    let edge_operand = (p != m && is_min_edge(&aa)) || (q != m && is_min_edge(&bb));
    if op_past {
        return (Expect::Fail, AddClass::OperandPast);
    }
    if !in_i128(&r) {
        let lim = I512::from_u128(1u128 << 127);
        // 'near': within two steps of the coarser operand's unit
        let step = U512::pow10((p.max(q) - p.min(q)) as u32).mul_u64(2);
        let far = r.abs().mag > lim.mag.add(&step);
        return (
            Expect::Fail,
            if far { AddClass::Far } else { AddClass::OnePast },
        );
    }
    let rc = r.to_i128().unwrap();
    if rc == i128::MIN || edge_operand {
        // -2^127: inside i128, outside Decimal::MIN..=MAX: either outcome
        return (
            Expect::Either(Box::new(Expect::Exact(rc, m))),
            AddClass::MinEdge,
        );
    }
    let cls = if rc == M || rc == -M {
        AddClass::AtLimit
    } else {
        AddClass::Fits
    };
    (Expect::Exact(rc, m), cls)
}

pub struct RoundInfo {
    pub rem_class: RemClass,
    pub last_digit: u8,
    pub negative: bool,
    pub wide: bool,
}

/// Exact rational num / den rounded once to an integer coefficient; result
/// expectation at scale `n` (exact scale).
fn rounded_expect(num: &I512, den: &U512, mode: RoundingMode) -> (I512, RoundInfo) {
    let r = round_div(num, den, mode);
    let info = RoundInfo {
        rem_class: r.rem_class,
        last_digit: r.last_digit,
        negative: r.negative,
        wide: !num.mag.fits_u128() || num.mag.low_u128() > M as u128,
    };
    (r.value, info)
}

#[derive(Clone, Copy, PartialEq, Eq, Debug)]
pub enum MulPath {
    ShortcutZero,
    ShortcutOne,
    Exact,
    Rounded,
}

/// C02: x * y (Decimal x Decimal operator) under `mode`.
pub fn mul(a: i128, p: u8, b: i128, q: u8, mode: RoundingMode) -> (Expect, MulPath, Option<RoundInfo>) {
    let prod = i(a).mul(&i(b));
    let s = p as u32 + q as u32;
    let is_one = |c: i128, s: u8| c == 10i128.pow(s as u32);
    if a == 0 || b == 0 {
        return (
            Expect::Value { c: I512::ZERO, s: 0, max_scale: 18 },
            MulPath::ShortcutZero,
            None,
        );
    }
    if is_one(a, p) || is_one(b, q) {
        // value exact; the text leaves the scale open for an operand equal to one
        // (the product always fits: it equals the other operand)
        let (c, sc) = if is_one(b, q) { (a, p) } else { (b, q) };
        return (
            Expect::Value { c: i(c), s: sc, max_scale: 18 },
            MulPath::ShortcutOne,
            None,
        );
    }
    if s <= 18 {
        return (expect_coeff(&prod, s as u8), MulPath::Exact, None);
    }
    let den = U512::pow10(s - 18);
    let (v, info) = rounded_expect(&prod, &den, mode);
    (expect_coeff(&v, 18), MulPath::Rounded, Some(info))
}

/// C02: checked_mul (Decimal x Decimal): exact product or None.
/// Returns the list of acceptable outcomes as (must_some, expectation).
pub fn checked_mul(a: i128, p: u8, b: i128, q: u8) -> Expect {
    let prod = i(a).mul(&i(b));
    let s = p as u32 + q as u32;
    let is_one = |c: i128, s: u8| c == 10i128.pow(s as u32);
    if a == 0 || b == 0 {
        return Expect::Value { c: I512::ZERO, s: 0, max_scale: 18 };
    }
    if is_one(a, p) || is_one(b, q) {
        let (c, sc) = if is_one(b, q) { (a, p) } else { (b, q) };
        return Expect::Value { c: i(c), s: sc, max_scale: 18 };
    }
    if s > 18 {
        // "None also when p+q > 18; never a rounded value"
        return Expect::Fail;
    }
    expect_coeff(&prod, s as u8)
}

/// C02: Decimal x integer (either side): exact at the Decimal's scale.
pub fn mul_int(a: i128, p: u8, v: i128) -> Expect {
    let prod = i(a).mul(&i(v));
    expect_coeff(&prod, p)
}

/// C04: mul_rounded(x, y, n), n <= 18.
pub fn mul_rounded(a: i128, p: u8, b: i128, q: u8, n: u8, mode: RoundingMode) -> (Expect, Option<RoundInfo>) {
    assert!(n <= 18);
    let prod = i(a).mul(&i(b));
    let s = p as u32 + q as u32;
    if prod.is_zero() {
        // zero result: ZERO allowed (fewer digits for a zero result)
        return (
            Expect::Value { c: I512::ZERO, s: 0, max_scale: n.min(s as u8) },
            None,
        );
    }
    if n as u32 >= s {
        // exact product already has fewer digits
        return (expect_coeff(&prod, s as u8), None);
    }
    let den = U512::pow10(s - n as u32);
    let (v, info) = rounded_expect(&prod, &den, mode);
    if v.is_zero() {
        return (Expect::Value { c: I512::ZERO, s: 0, max_scale: n }, Some(info));
    }
    (expect_coeff(&v, n), Some(info))
}

#[derive(Clone, Copy, PartialEq, Eq, Debug, Hash, PartialOrd, Ord)]
pub enum DivPath {
    Equal,
    NarrowShift,
    WideShift,
    DivisorSide,
}

/// Exact quotient a*10^-p / (b*10^-q) rounded once to n digits.
/// Returns the rounded coefficient at scale n, path class and rounding info.
pub fn div_core(a: i128, p: u8, b: i128, q: u8, n: u8, mode: RoundingMode) -> (I512, DivPath, RoundInfo) {
    assert!(b != 0);
    // value = a * 10^(q + n) / (b * 10^p)  in units of 10^-n
    let num_shift = q as u32 + n as u32;
    let den_shift = p as u32;
    let common = num_shift.min(den_shift);
    let num = i(a).mul_pow10(num_shift - common);
    let den = i(b).mul_pow10(den_shift - common);
    // make den positive
    let (num, den) = if den.neg { (num.neg(), den.abs()) } else { (num, den) };
    let path = if num_shift == den_shift {
        DivPath::Equal
    } else if num_shift > den_shift {
        if in_i128(&num) { DivPath::NarrowShift } else { DivPath::WideShift }
    } else {
        DivPath::DivisorSide
    };
    let (v, info) = rounded_expect(&num, &den.mag, mode);
    (v, path, info)
}

/// C03: x / y (all forms share it; `dividend_is_int`/`divisor form` only
/// matter for the divisor-one representation tolerance).
pub fn div(a: i128, p: u8, b: i128, q: u8, mode: RoundingMode) -> (Expect, Option<(DivPath, RoundInfo)>) {
    if b == 0 {
        return (Expect::Fail, None);
    }
    if a == 0 {
        return (Expect::Value { c: I512::ZERO, s: 0, max_scale: 0 }, None);
    }
    if b == 10i128.pow(q as u32) {
        // divisor one: the dividend's value, representation unchanged or stripped
        return (Expect::Value { c: i(a), s: p, max_scale: p }, None);
    }
    let (v, path, info) = div_core(a, p, b, q, 18, mode);
    if !in_i128(&v) {
        return (Expect::Fail, Some((path, info)));
    }
    let (nc, ns) = normalize(&v, 18);
    let e = if is_min_edge(&v) {
        Expect::Either(Box::new(Expect::Exact(nc.to_i128().unwrap(), ns)))
    } else {
        Expect::Exact(nc.to_i128().unwrap(), ns)
    };
    (e, Some((path, info)))
}

/// C04: div_rounded(x, y, n) with n <= 18: scale exactly n (ZERO allowed for
/// a zero dividend).
pub fn div_rounded(a: i128, p: u8, b: i128, q: u8, n: u8, mode: RoundingMode) -> (Expect, Option<(DivPath, RoundInfo)>) {
    assert!(n <= 18);
    if b == 0 {
        return (Expect::Fail, None);
    }
    if a == 0 {
        return (Expect::Value { c: I512::ZERO, s: 0, max_scale: n }, None);
    }
    let (v, path, info) = div_core(a, p, b, q, n, mode);
    let e = if v.is_zero() {
        // zero result: exactly n digits, or fewer (ZERO)
        Expect::Value { c: I512::ZERO, s: 0, max_scale: n }
    } else {
        expect_coeff(&v, n)
    };
    (e, Some((path, info)))
}

/// C04: quantize: the integer multiple of the quantum nearest to x under mode.
/// value = round(x / quant to integer) * quant. A panic is also tolerated when
/// the multiple count itself exceeds i128 (DESIGN tolerance).
pub fn quantize(a: i128, p: u8, b: i128, q: u8, mode: RoundingMode) -> (Expect, Option<(DivPath, RoundInfo)>) {
    if b == 0 {
        return (Expect::Fail, None);
    }
    if a == 0 {
        return (Expect::Value { c: I512::ZERO, s: 0, max_scale: 18 }, None);
    }
    let (cnt, path, info) = div_core(a, p, b, q, 0, mode);
    let res = cnt.mul(&i(b)); // at scale q
    let count_fits = in_range(&cnt);
    let res_fits = in_range(&res);
    let val = Expect::Value { c: res, s: q, max_scale: 18 };
    let e = if res.is_zero() {
        Expect::Value { c: I512::ZERO, s: 0, max_scale: 18 }
    } else if !res_fits {
        // not representable with the quantum's scale; still a value if the
        // multiple is representable with fewer fractional digits (e.g. the
        // quantum is 1.0 and the implementation returns the count itself)
        let (nc, _) = normalize(&res, q);
        if is_min_edge(&res) || in_range(&nc) { Expect::Either(Box::new(val)) } else { Expect::Fail }
    } else if !count_fits {
        Expect::Either(Box::new(val))
    } else {
        val
    };
    (e, Some((path, info)))
}

#[derive(Clone, Copy, PartialEq, Eq, Debug, Hash)]
pub enum RemPath {
    Equal,
    DivisorScaled,
    DivisorOverflow,
    DividendScaled,
    Stepwise,
}

/// C10: x % y. Value must equal the exact truncated-division remainder, scale
/// <= max(p,q). An overflow signal is acceptable only when p < q and
/// a*10^(q-p) leaves i128.
pub fn rem(a: i128, p: u8, b: i128, q: u8) -> (Expect, RemPath) {
    if b == 0 {
        return (Expect::Fail, RemPath::Equal);
    }
    let m = p.max(q);
    let aa = i(a).mul_pow10((m - p) as u32);
    let bb = i(b).mul_pow10((m - q) as u32);
    let (_, r) = aa.divrem_trunc(&bb);
    let path = if p == q {
        RemPath::Equal
    } else if p > q {
        if in_i128(&bb) { RemPath::DivisorScaled } else { RemPath::DivisorOverflow }
    } else if in_i128(&aa) {
        RemPath::DividendScaled
    } else {
        RemPath::Stepwise
    };
    let val = Expect::Value { c: r, s: m, max_scale: m };
    if path == RemPath::Stepwise {
        (Expect::Either(Box::new(val)), path)
    } else {
        (val, path)
    }
}

/// C05: round(d, n) for any i8 n.
pub fn round(a: i128, p: u8, n: i8, mode: RoundingMode) -> (Expect, Option<RoundInfo>) {
    if n as i32 >= p as i32 {
        return (Expect::Exact(a, p), None);
    }
    let shift = (p as i32 - n as i32) as u32; // 1..=146
    let den = U512::pow10(shift);
    let (v, info) = rounded_expect(&i(a), &den, mode);
    if n >= 0 {
        // |v| <= |a| so always representable
        if v.is_zero() {
            return (Expect::Value { c: I512::ZERO, s: 0, max_scale: n as u8 }, Some(info));
        }
        (Expect::Exact(v.to_i128().unwrap(), n as u8), Some(info))
    } else {
        // shift back to scale 0
        let k = (-(n as i32)) as u32;
        if v.is_zero() {
            return (Expect::Exact(0, 0), Some(info));
        }
        let back = v.mul_pow10(k);
        (expect_coeff(&back, 0), Some(info))
    }
}
