//! Coefficient / operand alphabets (DESIGN §3.1).

use std::collections::BTreeSet;

pub const M: i128 = i128::MAX;

pub fn pow10(k: u32) -> i128 {
    10i128.pow(k)
}

#[derive(Clone, Copy, PartialEq, Eq, Debug)]
pub enum Level {
    Quick,
    Mid,
    Thorough,
}

fn push(s: &mut BTreeSet<i128>, v: i128) {
    if v != i128::MIN {
        s.insert(v);
        s.insert(-v);
    }
}

fn push_near(s: &mut BTreeSet<i128>, v: i128, delta: i128) {
    for d in -delta..=delta {
        if let Some(x) = v.checked_add(d) {
            push(s, x);
        }
    }
}

/// The coefficient alphabet K(delta, n_small, level): sorted, deduplicated,
/// within [-M, M].
pub fn coeffs(delta: i128, n_small: i128, level: Level) -> Vec<i128> {
    let mut s = BTreeSet::new();
    // small(N)
    for v in 0..=n_small {
        push(&mut s, v);
    }
    let kstep: u32 = if level == Level::Quick { 2 } else { 1 };
    // pow10: d*10^k + delta
    let ds: &[i128] = match level {
        Level::Quick => &[1, 5, 9],
        Level::Mid => &[1, 2, 5, 9, 15, 25],
        Level::Thorough => &[1, 2, 3, 4, 5, 6, 7, 8, 9, 15, 25],
    };
    let mut k = 0;
    while k <= 38 {
        for &d in ds {
            if let Some(v) = pow10(k).checked_mul(d) {
                push_near(&mut s, v, delta);
            }
        }
        k += if k >= 36 { 1 } else { kstep };
    }
    // pow2
    let mut k = 0u32;
    while k <= 127 {
        let v = if k == 127 { M } else { 1i128 << k };
        push_near(&mut s, v, delta.min(1));
        k += if level == Level::Quick && !(60..=66).contains(&k) && k < 120 {
            4
        } else {
            1
        };
    }
    // thresh: M/10^k, M/(2*10^k)
    let mut k = 0;
    while k <= 38 {
        let t = M / pow10(k);
        push_near(&mut s, t, delta.min(1));
        push_near(&mut s, t / 2, delta.min(1));
        if level != Level::Quick {
            push_near(&mut s, t / 5, 1);
        }
        k += if level == Level::Quick { 3 } else { 1 };
    }
    // wrap thresholds: values whose up-scaling by 10^k lands next to 2^128, 2^129, 3*2^127
    // (a lost carry or a truncating overflow check yields a small plausible value exactly there)
    let mut k = 1;
    while k <= 38 {
        let p = pow10(k) as u128;
        for w in [u128::MAX / p, (u128::MAX / p) * 2, (u128::MAX / p) / 2 * 3] {
            if w <= M as u128 && w > 0 {
                push_near(&mut s, w as i128, delta.min(1));
            }
        }
        k += if level == Level::Quick { 3 } else { 1 };
    }
    // pow5 / smooth
    let mut v: i128 = 1;
    let mut k = 0;
    while k <= 54 {
        if level != Level::Quick || k % 6 == 0 || k == 54 {
            push(&mut s, v);
        }
        v = match v.checked_mul(5) {
            Some(x) => x,
            None => break,
        };
        k += 1;
    }
    // words: limb patterns
    let limbs: [u128; 6] = [
        0,
        1,
        1u128 << 62,
        (1u128 << 63) - 1,
        1u128 << 63,
        (1u128 << 64) - 1,
    ];
    for &hi in &limbs {
        for &lo in &limbs {
            let v = (hi << 64) | lo;
            if v <= M as u128 {
                if level != Level::Quick || hi == 0 || lo == 0 || hi == lo {
                    push(&mut s, v as i128);
                }
            }
        }
    }
    // digits: generic values with no special structure
    // fixed digit strings without special structure (digits of pi, e, sqrt 2, 1/7, 1/17, 2/3 among them)
    let pats: [&str; 10] = [
        "123456789012345678901234567890123456789",
        "987654321098765432109876543210987654321",
        "999999999999999999999999999999999999999",
        "111111111111111111111111111111111111111",
        "314159265358979323846264338327950288419",
        "271828182845904523536028747135266249775",
        "141421356237309504880168872420969807856",
        "142857142857142857142857142857142857142",
        "588235294117647058823529411764705882352",
        "666666666666666666666666666666666666666",
    ];
    for (pi, p) in pats.iter().enumerate() {
        if level == Level::Quick && pi >= 4 {
            continue;
        }
        let mut len = 1;
        while len <= 39 {
            if let Ok(v) = p[..len].parse::<i128>() {
                push(&mut s, v);
                // the same generic digits carrying trailing zeros (non-normalised representations of
                // large values; results of earlier operations look like this)
                for j in [1u32, 3, 9, 17] {
                    if let Some(w) = v.checked_mul(pow10(j)) {
                        if len % 8 == 1 || level != Level::Quick {
                            push(&mut s, w);
                        }
                    }
                }
            }
            len += if level == Level::Quick { 4 } else { 1 };
        }
    }
    push(&mut s, M);
    push(&mut s, M - 1);
    s.into_iter().collect()
}

/// A reduced alphabet (~100-200 values) for products with all 361 scale pairs.
pub fn coeffs_small(level: Level) -> Vec<i128> {
    let mut s = BTreeSet::new();
    for v in 0..=12 {
        push(&mut s, v);
    }
    let ks: Vec<u32> = match level {
        Level::Quick => vec![1, 2, 9, 18, 19, 27, 37, 38],
        _ => (1..=38).collect(),
    };
    for k in ks {
        push_near(&mut s, pow10(k), 1);
        push(&mut s, 5 * pow10(k.min(37)));
        push(&mut s, M / pow10(k));
        push(&mut s, M / pow10(k) + 1);
    }
    for k in [31u32, 32, 63, 64, 65, 96, 126] {
        push_near(&mut s, 1i128 << k, 1);
    }
    for k in [1u32, 9, 13, 18, 19, 30, 38] {
        let w = u128::MAX / pow10(k) as u128;
        if w <= M as u128 {
            push(&mut s, w as i128);
            push(&mut s, w as i128 + 1);
        }
    }
    push(&mut s, M);
    push(&mut s, M - 1);
    push(&mut s, M / 2);
    push(&mut s, M / 2 + 1);
    push(&mut s, 123456789012345678901234567890123456789);
    push(&mut s, 98765432109876543210987654321);
    push(&mut s, 333333333333333333);
    // large generic values with trailing zeros
    push(&mut s, 12345678901234567890123456789012345000);
    push(&mut s, 9876543210987654321098765432100);
    push(&mut s, 123456789012345678900);
    push(&mut s, 7777777777777777777777777000000000);
    s.into_iter().collect()
}

/// The frame of scale pairs realising every p-q and every p+q.
pub fn scale_frame() -> Vec<(u8, u8)> {
    let mut v = BTreeSet::new();
    for p in 0..=18u8 {
        v.insert((p, 0));
        v.insert((0, p));
        v.insert((18, p));
        v.insert((p, 18));
    }
    v.into_iter().collect()
}

pub fn scale_all() -> Vec<(u8, u8)> {
    let mut v = Vec::new();
    for p in 0..=18u8 {
        for q in 0..=18u8 {
            v.push((p, q));
        }
    }
    v
}

/// Boundary values of the 9 supported integer operand types, as i128, with a
/// type tag index (0..9) in the order u8,i8,u16,i16,u32,i32,u64,i64,i128.
pub const INT_TYPES: [&str; 9] = ["u8", "i8", "u16", "i16", "u32", "i32", "u64", "i64", "i128"];

pub fn int_range(t: usize) -> (i128, i128) {
    match t {
        0 => (0, u8::MAX as i128),
        1 => (i8::MIN as i128, i8::MAX as i128),
        2 => (0, u16::MAX as i128),
        3 => (i16::MIN as i128, i16::MAX as i128),
        4 => (0, u32::MAX as i128),
        5 => (i32::MIN as i128, i32::MAX as i128),
        6 => (0, u64::MAX as i128),
        7 => (i64::MIN as i128, i64::MAX as i128),
        8 => (i128::MIN, i128::MAX),
        _ => unreachable!(),
    }
}

/// Values of integer type `t` used as operands: range ends, small values,
/// powers of ten, and (`extra`) caller-supplied values that fit.
pub fn int_values(t: usize, level: Level, extra: &[i128]) -> Vec<i128> {
    let (lo, hi) = int_range(t);
    let mut s = BTreeSet::new();
    let mut add = |v: i128| {
        if v >= lo && v <= hi {
            s.insert(v);
        }
    };
    for v in [lo, lo.saturating_add(1), hi.saturating_sub(1), hi] {
        add(v);
    }
    for v in -12..=12 {
        add(v);
    }
    if t < 2 && level != Level::Quick {
        // every value of the 8-bit types
        for v in -128..=255 {
            add(v);
        }
    }
    let mut k = 1;
    while k <= 38 {
        add(pow10(k));
        add(-pow10(k));
        add(pow10(k) - 1);
        add(pow10(k) + 1);
        add(5 * pow10(k - 1));
        add(-5 * pow10(k - 1));
        k += if level == Level::Quick { 3 } else { 1 };
    }
    // the values at which SCALING the integer itself by 10^k leaves the i128 range (alignment thresholds
    // of the integer operand), and the bit-width boundaries at which 64-bit / 68-bit fast paths would switch
    let m = i128::MAX;
    let mut k = 1;
    while k <= 18 {
        let th = m / pow10(k);
        let ds: &[i128] = if level == Level::Quick { &[0, 1] } else { &[-1, 0, 1, 2] };
        for &d in ds {
            add(th + d);
            add(-(th + d));
        }
        k += 1;
    }
    let bits: &[u32] = if level == Level::Quick { &[63, 64, 68, 126] } else { &[31, 32, 62, 63, 64, 65, 67, 68, 96, 100, 126] };
    for &b in bits {
        for d in [-1i128, 0, 1] {
            add((1i128 << b) + d);
            add(-((1i128 << b) + d));
        }
    }
    for &v in extra {
        add(v);
    }
    s.into_iter().collect()
}

#[cfg(test)]
mod tests {
    use super::*;
    #[test]
    fn sizes() {
        for lv in [Level::Quick, Level::Mid, Level::Thorough] {
            eprintln!("{:?}: coeffs(1,20)={} coeffs(2,50)={} small={}", lv, coeffs(1, 20, lv).len(), coeffs(2, 50, lv).len(), coeffs_small(lv).len());
        }
    }
}
