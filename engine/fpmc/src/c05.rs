//! C05: round / checked_round and the integer rounding kernel.

use crate::alpha::{self, Level};
use crate::big::I512;
use crate::model;
use crate::runner::*;
use crate::spec::*;
use fpdec::{Decimal, Round, RoundingMode};
use serde_json::{json, Value};

fn level(t: Tier) -> Level {
    if t.thorough() { Level::Thorough } else { Level::Quick }
}

// class code layout: kind(4) | mode(3) | neg(1) | last_digit(4) | rem(2) | extra(6)
fn code(kind: u64, mode: usize, neg: bool, ld: u8, rc: RemClass, extra: u64) -> u64 {
    (kind << 16) | ((mode as u64) << 13) | ((neg as u64) << 12) | ((ld as u64) << 8) | ((rc as u64) << 6) | extra
}

fn class_name(c: u64) -> String {
    let kind = c >> 16;
    let mode = ((c >> 13) & 7) as usize;
    let neg = (c >> 12) & 1 == 1;
    let ld = (c >> 8) & 15;
    let rc = match (c >> 6) & 3 { 0 => "exact", 1 => "below-half", 2 => "tie", _ => "above-half" };
    let extra = c & 63;
    match kind {
        0 => format!("kernel/{}/{}/q%10={}/{}", mode_name(ALL_MODES[mode]), if neg { "neg" } else { "nonneg" }, ld, rc),
        1 => format!("kernel-large/{}/{}/{}", mode_name(ALL_MODES[mode]), if neg { "neg" } else { "nonneg" }, rc),
        2 => {
            let path = match extra { 0 => "n>=p unchanged", 1 => "0<=n<p", 2 => "n<0 fits", 3 => "n<0 overflow", 4 => "shift>38 (n<p-38)", _ => "?" };
            format!("round/{}/{}/{}/{}", mode_name(ALL_MODES[mode]), if neg { "neg" } else { "nonneg" }, rc, path)
        }
        _ => format!("class {}", c),
    }
}

fn kernel_case(n: i128, d: i128, mode: RoundingMode, via_default: bool, l: &mut Local, large: bool) {
    let (num, den) = if d < 0 { (I512::from_i128(n).neg(), I512::from_i128(d).abs()) } else { (I512::from_i128(n), I512::from_i128(d)) };
    let r = round_div(&num, &den.mag, mode);
    // the #[doc(hidden)] rounding kernel itself; in an engine built without feature hidden-rounded (the kernel's
    // signature changed) the same quotient through the public API: (n, 0).div_rounded((d, 0), 0) under the
    // thread's mode, which every caller of kernel_case has set to `mode`
    #[cfg(feature = "hidden-rounded")]
    let got = catch(|| fpdec_core::i128_div_rounded(n, d, if via_default { None } else { Some(mode) }));
    #[cfg(not(feature = "hidden-rounded"))]
    let got = { let _ = via_default; catch(|| fpdec::DivRounded::div_rounded(fpdec::Decimal::new_raw(n, 0), fpdec::Decimal::new_raw(d, 0), 0).coefficient()) };
    l.evals += 1;
    let c = if large { code(1, mode_idx(mode), r.negative, 0, r.rem_class, 0) } else { code(0, mode_idx(mode), r.negative, r.last_digit, r.rem_class, 0) };
    if l.class(c) {
        l.sample(c, json!({"op":"i128_div_rounded","n":n.to_string(),"d":d.to_string(),"mode":mode_name(mode),"model":r.value.to_dec_string()}));
    }
    let want = r.value.to_i128();
    let ok = match (&got, want) {
        (Ok(g), Some(w)) => *g == w,
        // result outside i128 (only n = i128::MIN territory): not enumerated
        (_, None) => true,
        (Err(()), Some(_)) => false,
    };
    if let Ok(g) = got { l.outcome(hash_i128s(&[g])); }
    if !ok {
        let kind = if got.is_err() { "panicked" } else { "wrong-value" };
        l.violation(
            format!("{} | {} | {}", if cfg!(feature = "hidden-rounded") { "i128_div_rounded" } else { "Decimal.div_rounded(Decimal, 0) in place of i128_div_rounded" }, if large { "large operands" } else { "small operands" }, kind),
            || (format!("n={} d={} mode={} via_default={} model={} impl={:?}", n, d, mode_name(mode), via_default, r.value.to_dec_string(), got),
            json!({"k":"kernel","n":n.to_string(),"d":d.to_string(),"mode":mode_name(mode),"via_default":via_default,"large":large})),
        );
    }
}

fn round_path(p: u8, n: i8) -> u64 {
    if n as i32 >= p as i32 { 0 } else if (p as i32 - n as i32) > 38 { 4 } else if n >= 0 { 1 } else { 2 }
}

fn round_case(a: i128, p: u8, n: i8, mode: RoundingMode, l: &mut Local) {
    let (exp, info) = model::round(a, p, n, mode);
    let d = Decimal::new_raw(a, p);
    let g_round = match catch(|| d.round(n)) { Ok(v) => Out::from_dec(v), Err(()) => Out::Panic };
    let g_chk = match catch(|| d.checked_round(n)) { Ok(v) => Out::from_opt(v), Err(()) => Out::Panic };
    l.evals += 2;
    let mut path = round_path(p, n);
    if path == 2 && matches!(exp, Expect::Fail) { path = 3; }
    let (neg, rc) = match &info { Some(i) => (i.negative, i.rem_class), None => (a < 0, RemClass::Exact) };
    let c = code(2, mode_idx(mode), neg, 0, rc, path);
    if l.class(c) {
        l.sample(c, json!({"op":"round","coeff":a.to_string(),"scale":p,"n":n,"mode":mode_name(mode),"model":show_expect(&exp)}));
    }
    if path != 0 { l.distinct += 1; }
    l.outcome(fnv(g_round.show().as_bytes()));
    let pathname = match round_path(p, n) { 0 => "n>=p", 1 => "0<=n<p", 2 => "n<0", _ => "shift>38 (n<p-38)" };
    for (name, got, fail) in [("round", &g_round, Out::Panic), ("checked_round", &g_chk, Out::None)] {
        if !accepts(&exp, got, &fail) {
            let kind = failure_kind(&exp, got, &fail);
            l.violation(
                format!("{} | {} | {}", name, pathname, kind),
                || (format!("{}(({},{}), n={}) mode={} model={} impl={}", name, a, p, n, mode_name(mode), show_expect(&exp), got.show()),
                json!({"k":"round","coeff":a.to_string(),"scale":p,"n":n,"mode":mode_name(mode)})),
            );
        }
    }
}

pub fn failure_kind(e: &Expect, got: &Out, fail: &Out) -> &'static str {
    let expects_fail = matches!(e, Expect::Fail);
    if *got == Out::Panic && *fail != Out::Panic {
        return "panicked";
    }
    if got == fail {
        return "unexpected-failure";
    }
    if expects_fail {
        return "missing-failure(returned value)";
    }
    match (e, got) {
        (Expect::Exact(c, _), Out::Val(gc, _)) if c == gc => "wrong-scale",
        _ => "wrong-value",
    }
}

pub fn replay(w: &Value) -> Vec<(String, String)> {
    let run = Run::new("C05", Tier::Quick);
    let mode = match w["mode"].as_str().and_then(mode_from_name) { Some(m) => m, None => return vec![] };
    let prev = RoundingMode::default();
    RoundingMode::set_default(mode);
    run.seq(|l| {
        match w["k"].as_str().unwrap_or("") {
            "kernel" => kernel_case(
                w["n"].as_str().unwrap().parse().unwrap(),
                w["d"].as_str().unwrap().parse().unwrap(),
                mode,
                w["via_default"].as_bool().unwrap_or(false),
                l,
                w["large"].as_bool().unwrap_or(false),
            ),
            "seq" => crate::seq::replay_case(w, l),
            "round" => round_case(
                w["coeff"].as_str().unwrap().parse().unwrap(),
                w["scale"].as_u64().unwrap() as u8,
                w["n"].as_i64().unwrap() as i8,
                mode,
                l,
            ),
            _ => {}
        }
    });
    RoundingMode::set_default(prev);
    run.violations().into_iter().map(|(s, r)| (s, r.detail)).collect()
}

pub fn run(tier: Tier) -> i32 {
    let run = Run::new("C05", tier);
    let lv = level(tier);

    // (a) kernel, complete small scope
    let nmax: i128 = if tier.thorough() { 30000 } else { 2000 };
    let dmax: i128 = if tier.thorough() { 100 } else { 40 };
    for mode in ALL_MODES {
        run.par_range(-nmax, nmax, || RoundingMode::set_default(mode), |n, l| {
            for d in (-dmax..=dmax).filter(|d| *d != 0) {
                kernel_case(n, d, mode, false, l, false);
                kernel_case(n, d, mode, true, l, false);
                l.distinct += 1;
            }
        });
    }
    run.stage("kernel-small", json!({"n_range":[-nmax, nmax],"d_range":[-dmax,dmax],"modes":8,"explicit_and_thread_default":true}));

    // (a2) kernel on large operands: boundary construction
    let divisors: Vec<i128> = {
        let mut v = vec![2i128, 3, 4, 5, 7, 8, 10, 16, 25, 100, 1000, 1 << 32, (1 << 32) + 1, 1 << 63, (1 << 64) - 1, 1 << 64, (1 << 64) + 1,
            1 << 100, 1 << 126, M / 2, M / 2 + 1, M - 1, M];
        for k in 1..=38 { v.push(alpha::pow10(k)); if lv != Level::Quick { v.push(alpha::pow10(k) - 1); v.push(alpha::pow10(k) + 1); v.push(2 * alpha::pow10(k.min(37))); } }
        v.sort(); v.dedup(); v
    };
    let quots: Vec<i128> = {
        let mut v: Vec<i128> = (0..=25).collect();
        for k in 1..=37 { for d in [-1i128, 0, 1, 4, 5] { v.push(alpha::pow10(k) + d); } }
        v.push(M); v.push(M - 1); v.push(M / 2); v.push((1 << 64) - 1); v.push(1 << 64);
        v.sort(); v.dedup(); v
    };
    for mode in ALL_MODES {
        run.par_for(&divisors, || RoundingMode::set_default(mode), |&d, l| {
            for &qv in &quots {
                let base = match qv.checked_mul(d) { Some(b) => b, None => continue };
                let mut xs = Vec::new();
                for delta in [-1i128, 0, 1] { if let Some(x) = base.checked_add(delta) { xs.push(x); } }
                let half = d / 2;
                for delta in [-1i128, 0, 1, 2] {
                    if let Some(x) = base.checked_add(half).and_then(|x| x.checked_add(delta)) { xs.push(x); }
                }
                xs.sort(); xs.dedup();
                for x in xs {
                    for (n, dd) in [(x, d), (-x, d), (x, -d), (-x, -d)] {
                        if n == i128::MIN { continue; }
                        kernel_case(n, dd, mode, false, l, true);
                        l.distinct += 1;
                    }
                }
            }
        });
    }
    run.stage("kernel-large", json!({"divisors":divisors.len(),"quotients":quots.len(),"boundaries":"Q*d+{-1,0,1}, Q*d+d/2+{-1,0,1,2}, 4 sign combinations"}));

    // (b) round / checked_round: alphabet x all 256 n x 8 modes
    let k = alpha::coeffs(1, if tier.thorough() { 50 } else { 20 }, if tier.thorough() { Level::Thorough } else { Level::Mid });
    let mut ops: Vec<(i128, u8)> = Vec::new();
    for &a in &k { for p in 0..=18u8 { ops.push((a, p)); } }
    for mode in ALL_MODES {
        run.par_for(&ops, || RoundingMode::set_default(mode), |&(a, p), l| {
            for n in i8::MIN..=i8::MAX {
                round_case(a, p, n, mode, l);
            }
        });
    }
    run.stage("round-alphabet", json!({"coefficients":k.len(),"scales":19,"n":"all 256 i8 values","modes":8}));

    // (b2) complete small scope
    let amax: i128 = if tier.thorough() { 100000 } else { 4000 };
    for mode in ALL_MODES {
        run.par_range(-amax, amax, || RoundingMode::set_default(mode), |a, l| {
            for p in 0..=18u8 {
                for n in -6i8..=18 {
                    if (n as i32) < p as i32 { round_case(a, p, n, mode, l); }
                }
            }
        });
    }
    run.stage("round-small", json!({"coeff_range":[-amax, amax],"scales":19,"n":[-6,18]}));

    // (c) frontier for negative n: results on, below and above M
    let mut fr: Vec<(i128, u8, i8)> = Vec::new();
    for kk in 1..=38u32 {
        let pk = alpha::pow10(kk);
        let tmax = M / pk;
        for t in [tmax, tmax - 1, tmax / 2, 1, 0] {
            if t < 0 { continue; }
            let base = t.checked_mul(pk);
            if let Some(b) = base {
                for delta in [-1i128, 0, 1, pk / 2 - 1, pk / 2, pk / 2 + 1, pk - 1] {
                    if let Some(x) = b.checked_add(delta) {
                        if x >= 0 { fr.push((x, 0, -(kk as i8))); fr.push((-x, 0, -(kk as i8))); }
                    }
                }
            }
        }
        // with scale p > 0: value a*10^-p, rounds to multiples of 10^k
        for p in [1u8, 9, 18] {
            for a in [M, M - 1, M / 2, M / 2 + 1, 1, 5, alpha::pow10(p as u32) - 1] {
                fr.push((a, p, -(kk as i8))); fr.push((-a, p, -(kk as i8)));
            }
        }
    }
    fr.sort(); fr.dedup();
    for mode in ALL_MODES {
        run.par_for(&fr, || RoundingMode::set_default(mode), |&(a, p, n), l| round_case(a, p, n, mode, l));
    }
    run.stage("round-negative-n-frontier", json!({"cases_per_mode":fr.len()}));

    // sequence exploration: chained operations from a seed set, results fed back as operands
    {
        let (d, cap) = if tier.thorough() { (3, 12000) } else { (2, 3000) };
        let modes: Vec<RoundingMode> = if tier.thorough() { ALL_MODES.to_vec() } else { vec![ALL_MODES[5], ALL_MODES[7], ALL_MODES[0]] };
        let (st, tr) = crate::seq::explore(&run, &[crate::seq::SOp::Round], d, cap, &modes);
        run.stage("sequence exploration (breadth-first over reachable Decimals)", json!({"depth": d, "states": st, "transitions": tr, "modes": modes.len()}));
        run.set_extra("sequence_exploration", json!({"depth": d, "states": st, "transitions": tr, "seeds": crate::seq::seeds().len(), "state_cap_per_level": cap}));
    }

    // required classes: every kernel class (mode x sign x q%10 x rem class)
    let mut required = Vec::new();
    for m in 0..8 { for neg in [false, true] { for ld in 0..10u8 { for rc in [RemClass::Exact, RemClass::BelowHalf, RemClass::Tie, RemClass::AboveHalf] {
        if neg && rc == RemClass::Exact && ld == 0 { /* populated by -10/1 etc. */ }
        required.push(vec![code(0, m, neg, ld, rc, 0)]);
    }}}}
    for m in 0..8 { for neg in [false, true] { for rc in [RemClass::Exact, RemClass::BelowHalf, RemClass::Tie, RemClass::AboveHalf] {
        required.push(vec![code(1, m, neg, 0, rc, 0)]);
        for path in [1u64, 2] { required.push(vec![code(2, m, neg, 0, rc, path)]); }
    }
    // with a shift above 38 the value is always strictly below half a unit
    required.push(vec![code(2, m, neg, 0, RemClass::BelowHalf, 4)]);
    }}
    for m in 0..8 { required.push(vec![code(2, m, false, 0, RemClass::Exact, 0)]); }

    finish(Finish {
        run: &run,
        level: "model_checking",
        rule: "Complete enumeration of: (a) i128_div_rounded for all |n|<=N, d in +-1..=40, 8 modes, explicit mode and thread default; (a2) large-operand boundary construction Q*d+{-1,0,1}, Q*d+d/2+{-1..2} in 4 sign combinations; (b) round/checked_round on the coefficient alphabet x 19 scales x all 256 n x 8 modes; (b2) all |a|<=A x 19 scales x n in -6..=18; (c) negative-n overflow frontier. A case is non-trivial when rounding actually happens (n < p) / for the kernel every (n,d,mode) tuple; distinct by construction (deduplicated, sorted alphabets crossed; evaluations additionally counts the round+checked_round and explicit+default call pairs).".into(),
        exhaustive: true,
        assumptions: vec![
            "reference model: 512-bit integer arithmetic (engine/fpmc/src/big.rs) with self-certifying division; rounding modes defined on the truncated quotient (spec.rs)".into(),
            "coverage outside the enumerated alphabets rests on the boundary-closure argument of DESIGN.md §3.2".into(),
        ],
        class_name: &class_name,
        required,
        replay: &replay,
    })
}
