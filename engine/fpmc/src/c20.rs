//! C20: results do not depend on the build profile; overflow is never silent.
//!
//! Configuration exploration: the slim driver `c20drv` is built for every
//! configuration of the matrix (overflow-checks x debug-assertions x opt-level
//! x feature packed) and walks the same deterministic input list; the
//! complete outcome streams are compared with the baseline configuration
//! (overflow-checks on, debug-assertions on, opt-level 0, packed off).

use crate::runner::*;
use serde_json::{json, Value};
use std::collections::BTreeMap;
use std::process::Command;

#[derive(Clone, Copy, PartialEq, Eq, Debug)]
pub struct Cfg { pub opt: u8, pub oc: bool, pub da: bool, pub packed: bool }

impl Cfg {
    fn profile(&self) -> String { format!("c20-o{}-oc{}-da{}", self.opt, self.oc as u8, self.da as u8) }
    pub fn name(&self) -> String { format!("opt-level={} overflow-checks={} debug-assertions={} packed={}", self.opt, if self.oc { "on" } else { "off" }, if self.da { "on" } else { "off" }, if self.packed { "on" } else { "off" }) }
    fn key(&self) -> String { format!("{}{}", self.profile(), if self.packed { "-packed" } else { "" }) }
    fn from_key(k: &str) -> Option<Cfg> {
        let packed = k.ends_with("-packed");
        let k = k.trim_end_matches("-packed");
        let p: Vec<&str> = k.split('-').collect();
        if p.len() != 4 { return None; }
        Some(Cfg { opt: p[1][1..].parse().ok()?, oc: &p[2][2..] == "1", da: &p[3][2..] == "1", packed })
    }
}

const BASE: Cfg = Cfg { opt: 0, oc: true, da: true, packed: false };

fn engine_dir() -> String { std::env::var("VERIF_ENGINE").unwrap_or_else(|_| "/verif/engine".into()) }
fn target_base() -> String { format!("{}/target/c20", std::env::var("VERIF_OUT").unwrap_or_else(|_| "/verif".into())) }

fn build(cfg: &Cfg) -> Result<String, String> {
    let tdir = format!("{}/{}", target_base(), cfg.key());
    let mut cmd = Command::new("cargo");
    cmd.args(["build", "--offline", "-p", "c20drv", "--profile", &cfg.profile()]);
    if cfg.packed { cmd.args(["--features", "packed"]); }
    if !cfg!(feature = "hidden-parse") { cmd.arg("--no-default-features"); }
    let out = cmd.current_dir(engine_dir()).env("CARGO_TARGET_DIR", &tdir).env("CARGO_NET_OFFLINE", "true").output().map_err(|e| e.to_string())?;
    if !out.status.success() { return Err(format!("build of {} failed:\n{}", cfg.name(), String::from_utf8_lossy(&out.stderr))); }
    Ok(format!("{}/{}/c20drv", tdir, cfg.profile()))
}

struct Hashes { chunks: Vec<(u64, u64, String)>, total: u64 }

fn hashes(bin: &str, tier: Tier) -> Result<Hashes, String> {
    let out = Command::new(bin).args(["hashes", tier.name()]).output().map_err(|e| e.to_string())?;
    if !out.status.success() { return Err(format!("{} hashes exited with {:?}", bin, out.status)); }
    let mut chunks = Vec::new();
    let mut total = 0;
    for line in String::from_utf8_lossy(&out.stdout).lines() {
        let p: Vec<&str> = line.split(' ').collect();
        if p[0] == "total" { total = p[1].parse().unwrap(); } else { chunks.push((p[0].parse().unwrap(), p[1].parse().unwrap(), p[2].to_string())); }
    }
    Ok(Hashes { chunks, total })
}

fn dump(bin: &str, tier: Tier, chunks: &[u64]) -> Result<Vec<(u64, String, String, String)>, String> {
    let list = chunks.iter().map(|c| c.to_string()).collect::<Vec<_>>().join(",");
    let out = Command::new(bin).args(["dump", tier.name(), &list]).output().map_err(|e| e.to_string())?;
    if !out.status.success() { return Err(format!("{} dump exited with {:?}", bin, out.status)); }
    Ok(String::from_utf8_lossy(&out.stdout).lines().map(|l| { let p: Vec<&str> = l.splitn(4, '\t').collect(); (p[0].parse().unwrap(), p[1].to_string(), p[2].to_string(), p[3].to_string()) }).collect())
}

fn kind(o: &str) -> &'static str {
    if o.contains("PANIC") || o == "Err(())" { "PANIC" } else if o.starts_with("None") || o == "Ok(None)" { "None" } else if o.contains("Err(") { "Err" } else { "value" }
}

fn site(op: &str, base: &str, other: &str, cfg: &Cfg) -> String {
    let axis = { let mut v = Vec::new(); if !cfg.oc { v.push("overflow-checks off"); } if !cfg.da { v.push("debug-assertions off"); } if cfg.opt != 0 { v.push("opt-level 3"); } if cfg.packed { v.push("packed"); } v.join("+") };
    let _ = axis;
    format!("{} | baseline:{} other:{}{}", op, kind(base), kind(other), if kind(base) == "value" && kind(other) == "value" { " (different values)" } else { "" })
}

fn compare(base_bin: &str, bin: &str, cfg: &Cfg, tier: Tier, bh: &Hashes, h: &Hashes, l: &mut Local) -> Result<u64, String> {
    if bh.total != h.total || bh.chunks.len() != h.chunks.len() { return Err(format!("input list lengths differ: baseline {} vs {} in {}", bh.total, h.total, cfg.name())); }
    let diff_chunks: Vec<u64> = bh.chunks.iter().zip(h.chunks.iter()).filter(|(b, o)| b.2 != o.2).map(|(b, _)| b.0).collect();
    let differing = diff_chunks.len() as u64;
    if differing > 0 {
        // dump the first 200 differing chunks from both binaries in one pass each
        let sel: Vec<u64> = diff_chunks.iter().copied().take(200).collect();
        let (db, d2) = std::thread::scope(|s| { let a = s.spawn(|| dump(base_bin, tier, &sel)); let b = s.spawn(|| dump(bin, tier, &sel)); (a.join().unwrap(), b.join().unwrap()) });
        let (db, d2) = (db?, d2?);
        if db.len() != d2.len() { return Err(format!("dumps have different lengths in {}", cfg.name())); }
        for (x, y) in db.iter().zip(d2.iter()) {
            if x.0 != y.0 || x.1 != y.1 || x.2 != y.2 { return Err(format!("input lists diverge at index {} ({} {} vs {} {}) in {}: the driver's own generation depends on the profile", x.0, x.1, x.2, y.1, y.2, cfg.name())); }
            if x.3 != y.3 {
                let w = json!({"tier": tier.name(), "config": cfg.key(), "chunk": x.0 / 4096, "index": x.0, "op": x.1, "input": x.2, "baseline": x.3, "other": y.3});
                l.violation(site(&x.1, &x.3, &y.3, cfg), || (format!("{} {} : baseline [{}] = {} ; [{}] = {}", x.1, x.2, BASE.name(), x.3, cfg.name(), y.3), w));
            }
        }
    }
    Ok(differing)
}

pub fn replay(w: &Value) -> Vec<(String, String)> {
    let run = Run::new("C20", Tier::Quick);
    let tier = if w["tier"].as_str() == Some("thorough") { Tier::Thorough } else { Tier::Quick };
    let cfg = match w["config"].as_str().and_then(Cfg::from_key) { Some(c) => c, None => return vec![] };
    let (chunk, index) = (w["chunk"].as_u64().unwrap_or(0), w["index"].as_u64().unwrap_or(0));
    run.seq(|l| {
        let r = (|| -> Result<(), String> {
            let (bb, ob) = (build(&BASE)?, build(&cfg)?);
            let (db, d2) = (dump(&bb, tier, &[chunk])?, dump(&ob, tier, &[chunk])?);
            for (x, y) in db.iter().zip(d2.iter()) {
                if x.0 == index && x.3 != y.3 {
                    let ww = json!({"config": cfg.key(), "chunk": chunk, "index": x.0, "op": x.1, "input": x.2, "baseline": x.3, "other": y.3});
                    l.violation(site(&x.1, &x.3, &y.3, &cfg), || (format!("{} {} : baseline = {} ; [{}] = {}", x.1, x.2, x.3, cfg.name(), y.3), ww));
                }
            }
            Ok(())
        })();
        if let Err(e) = r { eprintln!("replay machinery failure: {}", e); }
    });
    run.violations().into_iter().map(|(s, r)| (s, r.detail)).collect()
}

fn class_name(c: u64) -> String {
    format!("configuration opt-level={} overflow-checks={} debug-assertions={} packed={}", if c & 8 != 0 { 3 } else { 0 }, if c & 4 != 0 { "on" } else { "off" }, if c & 2 != 0 { "on" } else { "off" }, if c & 1 != 0 { "on" } else { "off" })
}
fn ccode(c: &Cfg) -> u64 { ((c.opt == 3) as u64) << 3 | (c.oc as u64) << 2 | (c.da as u64) << 1 | c.packed as u64 }

pub fn run(tier: Tier) -> i32 {
    let run = Run::new("C20", tier);
    let cfgs: Vec<Cfg> = if tier.thorough() {
        let mut v = Vec::new();
        for opt in [0u8, 3] { for oc in [true, false] { for da in [true, false] { for packed in [false, true] { v.push(Cfg { opt, oc, da, packed }); } } } }
        v
    } else {
        // dev-like and release-like x packed, plus each check axis switched off on its own
        vec![BASE, Cfg { opt: 3, oc: false, da: false, packed: false }, Cfg { opt: 0, oc: true, da: true, packed: true }, Cfg { opt: 3, oc: false, da: false, packed: true },
            Cfg { opt: 3, oc: false, da: true, packed: false }, Cfg { opt: 3, oc: true, da: false, packed: false }]
    };
    // build and run all configurations in parallel
    let results: Vec<Result<(String, Hashes), String>> = std::thread::scope(|s| {
        let hs: Vec<_> = cfgs.iter().map(|c| s.spawn(move || { let bin = build(c)?; let h = hashes(&bin, tier)?; Ok((bin, h)) })).collect();
        hs.into_iter().map(|h| h.join().unwrap()).collect()
    });
    let mut mach: Vec<String> = Vec::new();
    let mut bins: BTreeMap<String, (String, Hashes)> = BTreeMap::new();
    for (c, r) in cfgs.iter().zip(results.into_iter()) { match r { Ok(x) => { bins.insert(c.key(), x); } Err(e) => mach.push(e) } }
    let mut cfg_report = Vec::new();
    if let Some((base_bin, bh)) = bins.get(&BASE.key()) {
        run.seq(|l| {
            for c in &cfgs {
                if let Some((bin, h)) = bins.get(&c.key()) {
                    l.evals += h.total;
                    if l.class(ccode(c)) { l.sample(ccode(c), json!({"configuration": c.name(), "cases": h.total, "chunks": h.chunks.len(), "first_chunk_hash": h.chunks.first().map(|x| x.2.clone())})); }
                    if *c == BASE { l.distinct += h.total; cfg_report.push(json!({"configuration": c.name(), "role": "baseline", "cases": h.total})); continue; }
                    match compare(base_bin, bin, c, tier, bh, h, l) {
                        Ok(d) => cfg_report.push(json!({"configuration": c.name(), "cases": h.total, "chunks_differing_from_baseline": d})),
                        Err(e) => mach.push(e),
                    }
                }
            }
        });
        // show what a case looks like
        if let Ok(d) = dump(base_bin, tier, &[0]) { run.set_extra("sample_cases", json!(d.iter().take(6).map(|x| format!("{} {} => {}", x.1, x.2, x.3)).collect::<Vec<_>>())); }
    } else { mach.push("baseline configuration missing".into()); }
    run.stage("configurations built, executed and compared", json!({"configurations": cfg_report}));
    run.set_extra("configurations", json!(cfgs.iter().map(|c| c.name()).collect::<Vec<_>>()));
    for m in &mach { eprintln!("MACHINERY-FAILURE: {}", m); }
    let required: Vec<Vec<u64>> = cfgs.iter().map(|c| vec![ccode(c)]).collect();
    let rc = finish(Finish {
        run: &run,
        level: "model_checking",
        rule: "Complete enumeration of (build configuration, input): the driver is compiled for every configuration of {overflow-checks on/off} x {debug-assertions on/off} x {opt-level 0/3} x {packed off/on} (thorough: all 16; quick: dev-like and release-like x packed, plus overflow-checks off alone and debug-assertions off alone) and walks one deterministic input list: Decimal/Decimal arithmetic (+ - * / % checked_* += -= cmp quantize mul_rounded div_rounded) on boundary operands, the add/mul overflow frontier and the wide-path rounding frontier under the rounding modes; Decimal/integer operations for u8,i32,u64,i128; round/checked_round for n across the i8 range; formatting; unary operations; integer and float conversions in both directions; parsing; rejection of n>18. One outcome per case (value | None | Err(kind) | PANIC), hashed in chunks of 4096; differing chunks are dumped and compared line by line. evaluations = cases x configurations; distinct_nontrivial = cases of the input list.".into(),
        exhaustive: true,
        assumptions: vec!["differential oracle: the baseline configuration (overflow-checks on, debug-assertions on, opt-level 0, packed off); panic messages are not compared".into(), "scales 0..=18 only (new_raw's debug_assert guards an out-of-contract input)".into()],
        class_name: &class_name,
        required,
        replay: &replay,
    });
    if !mach.is_empty() { return 2; }
    rc
}
