//! Result-side ("inverse") frontier construction: pure functions that solve
//! for one operand so that a result sits on / next to a decision boundary.

use crate::alpha::{self, Level};
use crate::big::{I512, U512};

pub const M: i128 = i128::MAX;

pub fn clip(v: &I512) -> Option<i128> {
    match v.to_i128() {
        Some(x) if x != i128::MIN => Some(x),
        _ => None,
    }
}

fn push_i512(out: &mut Vec<i128>, v: &I512) {
    if let Some(x) = clip(v) {
        out.push(x);
    }
}

/// floor(n / d) for d > 0 in I512.
pub fn floor_div(n: &I512, d: &U512) -> I512 {
    let (q, r) = n.mag.divrem(d);
    if n.neg && !r.is_zero() {
        I512::new(true, q.add(&U512::ONE))
    } else {
        I512::new(n.neg, q)
    }
}

/// Push floor(n/d) + deltas (clipped to the Decimal coefficient range).
pub fn push_solutions(out: &mut Vec<i128>, n: &I512, d: &U512, deltas: &[i128]) {
    let f = floor_div(n, d);
    for &dl in deltas {
        push_i512(out, &f.add(&I512::from_i128(dl)));
    }
}

/// Overflow frontier for add/sub: all `a` (at scale p) such that
/// a*10^(m-p) (+/-) b*10^(m-q) sits on / next to each target T, and the
/// alignment thresholds of `a` itself.
pub fn frontier_add(b: i128, p: u8, q: u8, out: &mut Vec<i128>) {
    let m = p.max(q);
    let bb = I512::from_i128(b).mul_pow10((m - q) as u32);
    let sa = U512::pow10((m - p) as u32);
    let lim = I512::from_u128(1u128 << 127);
    let targets: Vec<I512> = {
        let mut t = Vec::new();
        for d in -3i128..=2 {
            t.push(lim.add(&I512::from_i128(d))); //  2^127-3 .. 2^127+2
            t.push(lim.neg().add(&I512::from_i128(-d))); // -2^127+3 .. -2^127-2
        }
        for d in -1i128..=1 {
            t.push(I512::from_i128(d));
        }
        t
    };
    for t in &targets {
        // a*sa + bb = t  and  a*sa - bb = t
        for rhs in [t.sub(&bb), t.add(&bb)] {
            push_solutions(out, &rhs, &sa, &[0, 1]);
        }
    }
    // alignment frontier of a: next to the overflow threshold and next to the wrap-around points
    if p < m {
        let pk = alpha::pow10((m - p) as u32);
        let t = M / pk;
        for v in [t - 1, t, t + 1, t + 2] {
            out.push(v);
            out.push(-v);
        }
        let w = u128::MAX / pk as u128;
        for base in [w, w * 2, w / 2 * 3] {
            for d in [0u128, 1, 2] {
                let v = base + d;
                if v <= M as u128 {
                    out.push(v as i128);
                    out.push(-(v as i128));
                }
            }
        }
    }
}

/// Overflow frontier for exact products: a = floor(T / b) + {-1,0,1,2} for T
/// next to +-2^127 and next to the wrap-around points 2^128, 2^129, 3*2^127
/// (where truncating or wrapping arithmetic would return a small, plausible
/// looking value).
pub fn frontier_mul_overflow(b: i128, out: &mut Vec<i128>) {
    if b == 0 {
        return;
    }
    let bm = U512::from_u128(b.unsigned_abs());
    for wrap in [U512::pow2(128), U512::pow2(129), U512::pow2(127).mul_u64(3), U512::pow2(128).add(&U512::pow2(126))] {
        for d in [-1i128, 0, 1] {
            let t = I512::new(false, wrap).add(&I512::from_i128(d));
            push_solutions(out, &t, &bm, &[0, 1]);
            push_solutions(out, &t.neg(), &bm, &[0, 1]);
        }
    }
    let lim = I512::from_u128(1u128 << 127);
    for d in [-2i128, -1, 0, 1] {
        for t in [lim.add(&I512::from_i128(d)), lim.neg().sub(&I512::from_i128(d))] {
            let t = if b < 0 { t.neg() } else { t };
            push_solutions(out, &t, &bm, &[-1, 0, 1, 2]);
        }
    }
}

fn modinv(a: u128, m: u128) -> Option<u128> {
    // extended Euclid on i128 (m <= 10^18)
    let (mut old_r, mut r) = (a as i128 % m as i128, m as i128);
    let (mut old_s, mut s) = (1i128, 0i128);
    while r != 0 {
        let q = old_r / r;
        (old_r, r) = (r, old_r - q * r);
        (old_s, s) = (s, old_s - q * s);
    }
    if old_r != 1 {
        return None;
    }
    Some(old_s.rem_euclid(m as i128) as u128)
}

/// Quotient alphabet used for rounding frontiers.
pub fn quotients(level: Level) -> Vec<i128> {
    let mut v: Vec<i128> = (0..=21).collect();
    v.extend_from_slice(&[24, 25, 49, 50, 95, 99, 100, 101, 105]);
    let ks: Vec<u32> = if level == Level::Quick { vec![9, 18, 19, 27, 36, 37, 38] } else { (3..=38).collect() };
    for k in ks {
        let p = alpha::pow10(k);
        for d in [-5i128, -1, 0, 1, 4, 5] {
            v.push(p + d);
        }
        if p <= M / 5 { v.push(5 * p); v.push(5 * p + 5); }
    }
    v.extend_from_slice(&[M, M - 1, M - 2, M - 5, M / 2, M / 2 + 1, (1 << 64) - 1, 1 << 64, (1 << 64) + 1, (1i128 << 126) + 5]);
    v.sort();
    v.dedup();
    v
}

/// Rounding frontier for products: all `a` with a*b in the neighbourhood of
/// Q*10^s + rho for every residue class rho of interest. For b coprime to 10
/// the residues are hit exactly (modular inverse); otherwise straddled.
pub fn frontier_mul_round(b: i128, s: u32, qs: &[i128], out: &mut Vec<i128>) {
    if b == 0 || s == 0 {
        return;
    }
    let ps = alpha::pow10(s.min(38));
    let bm = U512::from_u128(b.unsigned_abs());
    let half = ps / 2;
    let rhos = [0i128, 1, half - 1, half, half + 1, ps - 1];
    // straddling construction: a = floor((Q*10^s + rho) / |b|) + {0,1}
    for &qv in qs {
        let base = I512::from_i128(qv).mul(&I512::from_i128(ps));
        for &rho in &rhos {
            let t = base.add(&I512::from_i128(rho));
            let f = floor_div(&t, &bm);
            for dl in [0i128, 1] {
                if let Some(x) = clip(&f.add(&I512::from_i128(dl))) {
                    out.push(x);
                    out.push(-x);
                }
            }
        }
    }
    // quotients at the wrap-around points: a*b / 10^s next to 2^128 and 2^129
    for wrap in [U512::pow2(128), U512::pow2(129), U512::pow2(127).mul_u64(3)] {
        for d in [-1i128, 0, 1] {
            let q = I512::new(false, wrap).add(&I512::from_i128(d));
            let base = q.mul(&I512::from_i128(ps));
            for &rho in &[0i128, 1, half, ps - 1] {
                let f = floor_div(&base.add(&I512::from_i128(rho)), &bm);
                for dl in [0i128, 1] {
                    if let Some(x) = clip(&f.add(&I512::from_i128(dl))) {
                        out.push(x);
                        out.push(-x);
                    }
                }
            }
        }
    }
    // exact residues for b coprime to 10 (s <= 18 so 10^s fits)
    if s <= 18 && b % 2 != 0 && b % 5 != 0 {
        let m = ps as u128;
        let binv = modinv(b.unsigned_abs() % m, m).unwrap();
        for &rho in &rhos {
            let a0 = ((rho as u128 % m) * binv % m) as i128; // a0*|b| == rho mod 10^s
            // small multiples and the top of the range
            let mut ts: Vec<i128> = (0..6).collect();
            let top = (M - a0) / ps;
            for d in 0..4 {
                ts.push(top - d);
            }
            // t such that a*b is near the i128 product limit and near 2^127 * 10^s / b
            let t_lim = floor_div(&I512::from_u128(1u128 << 127), &bm).to_i128().unwrap_or(0) / ps;
            for d in -1..=1 {
                ts.push(t_lim + d);
            }
            for t in ts {
                if t < 0 { continue; }
                if let Some(x) = t.checked_mul(ps).and_then(|v| v.checked_add(a0)) {
                    out.push(x);
                    out.push(-x);
                }
            }
        }
    }
    // exact ties for 2-5-smooth b: a = (2Q+1) * (10^s/2) / |b| when |b| divides 10^s/2 * odd
    let h = U512::pow10(s).divrem_u64(2).0;
    let (hq, hr) = h.divrem(&bm);
    if hr.is_zero() {
        for &qv in qs.iter().take(40) {
            let odd = I512::from_i128(qv).mul(&I512::from_i128(2)).add(&I512::from_i128(1));
            let a = odd.mul(&I512::new(false, hq));
            if let Some(x) = clip(&a) {
                out.push(x);
                out.push(-x);
            }
        }
    }
}

/// Rounding frontier for quotients: all `a` such that a*10^up / (|b|*10^down)
/// is next to the integer boundary Q and the half boundary Q + 1/2.
pub fn frontier_div_round(b: i128, up: u32, down: u32, qs: &[i128], out: &mut Vec<i128>) {
    if b == 0 {
        return;
    }
    let den = I512::from_u128(b.unsigned_abs()).mul_pow10(down); // positive
    let pu = U512::pow10(up);
    // quotients at the wrap-around points 2^128, 2^129 (only reachable when the dividend is scaled up)
    if up > 0 {
        for wrap in [U512::pow2(128), U512::pow2(129), U512::pow2(127).mul_u64(3)] {
            for d in [-1i128, 0, 1] {
                let q = I512::new(false, wrap).add(&I512::from_i128(d));
                let qd = q.mul(&den);
                push_both(out, &qd, &pu);
            }
        }
    }
    for &qv in qs {
        let qd = I512::from_i128(qv).mul(&den);
        // integer boundary: a*10^up = Q*den
        push_both(out, &qd, &pu);
        // half boundary: a*10^up = Q*den + den/2
        let half = I512::new(false, den.mag.divrem_u64(2).0);
        push_both(out, &qd.add(&half), &pu);
        if den.mag.is_odd() {
            push_both(out, &qd.add(&half).add(&I512::from_i128(1)), &pu);
        }
    }
}

fn push_both(out: &mut Vec<i128>, n: &I512, d: &U512) {
    let f = floor_div(n, d);
    for dl in [-1i128, 0, 1, 2] {
        if let Some(x) = clip(&f.add(&I512::from_i128(dl))) {
            out.push(x);
            out.push(-x);
        }
    }
}

/// Divisor alphabet for division frontiers.
pub fn divisors(level: Level) -> Vec<i128> {
    let mut v: Vec<i128> = vec![2, 3, 4, 5, 6, 7, 8, 9, 11, 13, 16, 25, 32, 64, 125, 1024, 3125];
    let step = if level == Level::Quick { 5 } else { 1 };
    let mut k = 1;
    while k <= 38 {
        let p = alpha::pow10(k);
        v.push(p);
        v.push(p - 1);
        v.push(p + 1);
        if p <= M / 2 { v.push(2 * p); }
        if p <= M / 3 { v.push(3 * p); }
        if k % step == 0 || k == 38 {
            if p <= M / 7 { v.push(7 * p); }
        }
        k += 1;
    }
    let mut k = 10;
    while k <= 126 {
        v.push(1i128 << k);
        if level != Level::Quick || k % 16 == 0 {
            v.push((1i128 << k) - 1);
            v.push((1i128 << k) + 1);
        }
        k += if level == Level::Quick { 7 } else { 1 };
    }
    // limb shapes: normalised-minimal top limb with maximal low limb and shifts
    let shape: u128 = (1u128 << 127) | ((1u128 << 64) - 1);
    for sh in 1..=64 {
        if level != Level::Quick || sh % 9 == 1 {
            v.push((shape >> sh) as i128);
        }
    }
    v.extend_from_slice(&[(1 << 64) - 1, 1 << 64, (1 << 64) + 1, M, M - 1, M / 2, M / 3, 999999999999999999, 10i128.pow(18) - 1,
        123456789012345678901234567890123456789, 98765432109876543210987654321]);
    v.sort();
    v.dedup();
    v
}

