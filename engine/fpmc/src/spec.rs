//! Reference model shared by the property checks: outcomes, exact decimal
//! rationals, the eight rounding modes (defined on the *truncated* quotient,
//! not on the floor quotient the implementation uses).

use crate::big::{I512, U512};
use fpdec::{Decimal, RoundingMode};

pub const M: i128 = i128::MAX; // 2^127 - 1

pub const ALL_MODES: [RoundingMode; 8] = [
    RoundingMode::Round05Up,
    RoundingMode::RoundCeiling,
    RoundingMode::RoundDown,
    RoundingMode::RoundFloor,
    RoundingMode::RoundHalfDown,
    RoundingMode::RoundHalfEven,
    RoundingMode::RoundHalfUp,
    RoundingMode::RoundUp,
];

pub fn mode_name(m: RoundingMode) -> &'static str {
    match m {
        RoundingMode::Round05Up => "05Up",
        RoundingMode::RoundCeiling => "Ceiling",
        RoundingMode::RoundDown => "Down",
        RoundingMode::RoundFloor => "Floor",
        RoundingMode::RoundHalfDown => "HalfDown",
        RoundingMode::RoundHalfEven => "HalfEven",
        RoundingMode::RoundHalfUp => "HalfUp",
        RoundingMode::RoundUp => "Up",
    }
}

pub fn mode_idx(m: RoundingMode) -> usize {
    ALL_MODES.iter().position(|x| *x == m).unwrap()
}

pub fn mode_from_name(s: &str) -> Option<RoundingMode> {
    ALL_MODES.iter().copied().find(|m| mode_name(*m) == s)
}

/// Python `decimal` constant name for the validator.
pub fn mode_py(m: RoundingMode) -> &'static str {
    match m {
        RoundingMode::Round05Up => "ROUND_05UP",
        RoundingMode::RoundCeiling => "ROUND_CEILING",
        RoundingMode::RoundDown => "ROUND_DOWN",
        RoundingMode::RoundFloor => "ROUND_FLOOR",
        RoundingMode::RoundHalfDown => "ROUND_HALF_DOWN",
        RoundingMode::RoundHalfEven => "ROUND_HALF_EVEN",
        RoundingMode::RoundHalfUp => "ROUND_HALF_UP",
        RoundingMode::RoundUp => "ROUND_UP",
    }
}

/// Remainder class relative to half the divisor.
#[derive(Clone, Copy, PartialEq, Eq, Debug, Hash, PartialOrd, Ord)]
pub enum RemClass {
    Exact,
    BelowHalf,
    Tie,
    AboveHalf,
}

pub struct Rounded {
    pub value: I512,
    pub trunc: I512,
    pub rem_class: RemClass,
    /// last decimal digit of |trunc|
    pub last_digit: u8,
    pub negative: bool,
}

/// Round the exact rational num/den (den > 0) to an integer under `mode`.
pub fn round_div(num: &I512, den: &U512, mode: RoundingMode) -> Rounded {
    assert!(!den.is_zero());
    let (t, r) = num.mag.divrem(den);
    let negative = num.neg && !num.mag.is_zero();
    let last_digit = t.rem_u64(10) as u8;
    let rem_class = if r.is_zero() {
        RemClass::Exact
    } else {
        let twice = r.shl(1);
        match twice.cmp(den) {
            std::cmp::Ordering::Less => RemClass::BelowHalf,
            std::cmp::Ordering::Equal => RemClass::Tie,
            std::cmp::Ordering::Greater => RemClass::AboveHalf,
        }
    };
    let away = match rem_class {
        RemClass::Exact => false,
        rc => match mode {
            RoundingMode::RoundDown => false,
            RoundingMode::RoundUp => true,
            RoundingMode::RoundCeiling => !negative,
            RoundingMode::RoundFloor => negative,
            RoundingMode::RoundHalfUp => rc != RemClass::BelowHalf,
            RoundingMode::RoundHalfDown => rc == RemClass::AboveHalf,
            RoundingMode::RoundHalfEven => {
                rc == RemClass::AboveHalf || (rc == RemClass::Tie && t.is_odd())
            }
            RoundingMode::Round05Up => last_digit == 0 || last_digit == 5,
        },
    };
    let mag = if away { t.add(&U512::ONE) } else { t };
    Rounded {
        value: I512::new(negative, mag),
        trunc: I512::new(negative, t),
        rem_class,
        last_digit,
        negative,
    }
}

/// Is the coefficient within the documented Decimal range ±(2^127-1)?
pub fn in_range(v: &I512) -> bool {
    match v.to_i128() {
        Some(x) => x != i128::MIN,
        None => false,
    }
}

/// Exactly -2^127: inside i128, outside Decimal::MIN..=MAX — tolerated both
/// as a value and as an overflow signal (DESIGN §3.3).
pub fn is_min_edge(v: &I512) -> bool {
    v.to_i128() == Some(i128::MIN)
}

/// What an operation produced, or is allowed to produce.
#[derive(Clone, PartialEq, Eq, Debug, Hash)]
pub enum Out {
    Val(i128, u8),
    None,
    Panic,
    Err(String),
    Int(i128),
    Bool(bool),
    Text(String),
}

impl Out {
    pub fn from_dec(d: Decimal) -> Out {
        Out::Val(d.coefficient(), d.n_frac_digits())
    }
    pub fn from_opt(d: Option<Decimal>) -> Out {
        match d {
            Some(d) => Out::from_dec(d),
            None => Out::None,
        }
    }
    pub fn show(&self) -> String {
        match self {
            Out::Val(c, s) => format!("Val({},{})", c, s),
            Out::None => "None".into(),
            Out::Panic => "Panic".into(),
            Out::Err(e) => format!("Err({})", e),
            Out::Int(i) => format!("Int({})", i),
            Out::Bool(b) => format!("Bool({})", b),
            Out::Text(t) => format!("Text({:?})", t),
        }
    }
}

/// Specification of the acceptable outcomes for one call.
#[derive(Clone, Debug)]
pub enum Expect {
    /// exactly this coefficient and scale
    Exact(i128, u8),
    /// this numeric value (coefficient `c` at scale `s`), any representation
    /// with scale <= max_scale that denotes the same value
    Value { c: I512, s: u8, max_scale: u8 },
    /// an overflow / rejection signal (Panic for operators, None for checked)
    Fail,
    /// either: the listed value or a failure signal (tolerated edge)
    Either(Box<Expect>),
}

/// Does value (c1,s1) equal value (c2,s2) numerically?
pub fn same_value(c1: &I512, s1: u8, c2: &I512, s2: u8) -> bool {
    let m = s1.max(s2);
    c1.mul_pow10((m - s1) as u32) == c2.mul_pow10((m - s2) as u32)
}

/// `fail` is the failure signal appropriate for the call form
/// (Out::Panic for operators, Out::None for checked variants).
pub fn accepts(e: &Expect, got: &Out, fail: &Out) -> bool {
    match e {
        Expect::Exact(c, s) => *got == Out::Val(*c, *s),
        Expect::Value { c, s, max_scale } => match got {
            Out::Val(gc, gs) => {
                *gs <= *max_scale && same_value(&I512::from_i128(*gc), *gs, c, *s)
            }
            _ => false,
        },
        Expect::Fail => got == fail,
        Expect::Either(inner) => got == fail || accepts(inner, got, fail),
    }
}

pub fn show_expect(e: &Expect) -> String {
    match e {
        Expect::Exact(c, s) => format!("Exact({},{})", c, s),
        Expect::Value { c, s, max_scale } => {
            format!("Value({}e-{}, scale<={})", c.to_dec_string(), s, max_scale)
        }
        Expect::Fail => "Fail".into(),
        Expect::Either(i) => format!("Either(Fail | {})", show_expect(i)),
    }
}

/// Build the expectation for an exact coefficient at a fixed scale.
pub fn expect_coeff(c: &I512, s: u8) -> Expect {
    if in_range(c) {
        Expect::Exact(c.to_i128().unwrap(), s)
    } else if is_min_edge(c) {
        Expect::Either(Box::new(Expect::Exact(i128::MIN, s)))
    } else {
        Expect::Fail
    }
}

/// Strip trailing zeros from (c, s) down to scale 0 (zero -> scale 0).
pub fn normalize(c: &I512, s: u8) -> (I512, u8) {
    if c.is_zero() {
        return (I512::ZERO, 0);
    }
    let mut mag = c.mag;
    let mut s = s;
    while s > 0 {
        let (q, r) = mag.divrem_u64(10);
        if r != 0 {
            break;
        }
        mag = q;
        s -= 1;
    }
    (I512::new(c.neg, mag), s)
}

pub fn out_op(f: impl FnOnce() -> Decimal) -> Out {
    match crate::runner::catch(f) {
        Ok(d) => Out::from_dec(d),
        Err(()) => Out::Panic,
    }
}

pub fn out_checked(f: impl FnOnce() -> Option<Decimal>) -> Out {
    match crate::runner::catch(f) {
        Ok(d) => Out::from_opt(d),
        Err(()) => Out::Panic,
    }
}

pub fn dec(c: i128, s: u8) -> Decimal {
    Decimal::new_raw(c, s)
}
