//! Exploration runtime: deterministic parallel enumeration, coverage classes,
//! violation collection with site keys, known findings, evidence, replay files.

use serde_json::{json, Map, Value};
use std::cell::Cell;
use std::collections::{BTreeMap, HashMap, HashSet};
use std::sync::atomic::{AtomicUsize, Ordering};
use std::sync::Mutex;
use std::time::Instant;

#[derive(Clone, Copy, PartialEq, Eq, Debug)]
pub enum Tier {
    Quick,
    Thorough,
}

impl Tier {
    pub fn name(&self) -> &'static str {
        match self {
            Tier::Quick => "quick",
            Tier::Thorough => "thorough",
        }
    }
    pub fn thorough(&self) -> bool {
        *self == Tier::Thorough
    }
}

thread_local! {
    static IN_IMPL: Cell<bool> = const { Cell::new(false) };
}

/// Install a panic hook that is silent while the implementation under test is
/// being called inside `catch` (its panics are outcomes), and loud otherwise
/// (a panic of the machinery itself).
pub fn install_panic_hook() {
    let default = std::panic::take_hook();
    std::panic::set_hook(Box::new(move |info| {
        if !IN_IMPL.with(|c| c.get()) {
            default(info);
        }
    }));
}

/// Run the implementation; a panic is an outcome.
pub fn catch<T>(f: impl FnOnce() -> T) -> Result<T, ()> {
    IN_IMPL.with(|c| c.set(true));
    let r = std::panic::catch_unwind(std::panic::AssertUnwindSafe(f));
    IN_IMPL.with(|c| c.set(false));
    r.map_err(|_| ())
}

#[derive(Clone, Debug)]
pub struct VioRec {
    pub count: u64,
    pub witness: Value,
    pub detail: String,
}

#[derive(Default)]
struct Shared {
    evals: u64,
    distinct: u64,
    classes: BTreeMap<u64, u64>,
    samples: BTreeMap<u64, Value>,
    outcomes: HashSet<u64>,
    violations: BTreeMap<String, VioRec>,
    stages: Vec<Value>,
    extra: Map<String, Value>,
}

pub struct Run {
    pub prop: &'static str,
    pub tier: Tier,
    pub seed: u64,
    pub start: Instant,
    pub threads: usize,
    shared: Mutex<Shared>,
}

pub struct Local<'a> {
    pub run: &'a Run,
    pub evals: u64,
    pub distinct: u64,
    classes: HashMap<u64, u64>,
    new_samples: Vec<(u64, Value)>,
    outcomes: HashSet<u64>,
    vios: HashMap<String, (u64, Option<(String, Value)>)>,
}

const VIO_KEEP: u64 = 64;

impl<'a> Local<'a> {
    fn new(run: &'a Run) -> Self {
        Local {
            run,
            evals: 0,
            distinct: 0,
            classes: HashMap::new(),
            new_samples: Vec::new(),
            outcomes: HashSet::new(),
            vios: HashMap::new(),
        }
    }

    /// Count one case in a coverage class. Returns true if this worker sees
    /// the class for the first time (caller may then attach a sample).
    #[inline]
    pub fn class(&mut self, code: u64) -> bool {
        let e = self.classes.entry(code).or_insert(0);
        *e += 1;
        *e == 1
    }

    pub fn sample(&mut self, code: u64, v: Value) {
        self.new_samples.push((code, v));
    }

    /// Record a hash of an observed outcome (bounded).
    #[inline]
    pub fn outcome(&mut self, h: u64) {
        if self.outcomes.len() < 200_000 {
            self.outcomes.insert(h);
        }
    }

    /// Record a violation. `mk` builds (detail, witness) and is only called
    /// for the first VIO_KEEP cases of a site seen by this worker (all cases
    /// are counted); the smallest witness by (length, text) is kept.
    pub fn violation(&mut self, site: String, mk: impl FnOnce() -> (String, Value)) {
        let e = self.vios.entry(site).or_insert_with(|| (0, None));
        e.0 += 1;
        if e.0 <= VIO_KEEP {
            let (detail, witness) = mk();
            let replace = match &e.1 {
                None => true,
                Some((_, old)) => {
                    let (a, b) = (witness.to_string(), old.to_string());
                    (a.len(), &a) < (b.len(), &b)
                }
            };
            if replace {
                e.1 = Some((detail, witness));
            }
        }
    }

    fn flush(self) {
        let mut sh = self.run.shared.lock().unwrap();
        sh.evals += self.evals;
        sh.distinct += self.distinct;
        for (k, v) in self.classes {
            *sh.classes.entry(k).or_insert(0) += v;
        }
        for (k, v) in self.new_samples {
            let replace = match sh.samples.get(&k) {
                None => true,
                Some(old) => {
                    let (a, b) = (v.to_string(), old.to_string());
                    (a.len(), &a) < (b.len(), &b)
                }
            };
            if replace {
                sh.samples.insert(k, v);
            }
        }
        for h in self.outcomes {
            if sh.outcomes.len() < 2_000_000 {
                sh.outcomes.insert(h);
            }
        }
        for (site, (count, best)) in self.vios {
            let (detail, witness) = best.unwrap();
            let e = sh.violations.entry(site).or_insert_with(|| VioRec {
                count: 0,
                witness: witness.clone(),
                detail: detail.clone(),
            });
            e.count += count;
            let (a, b) = (witness.to_string(), e.witness.to_string());
            if (a.len(), &a) < (b.len(), &b) {
                e.witness = witness;
                e.detail = detail;
            }
        }
    }
}

impl Run {
    pub fn new(prop: &'static str, tier: Tier) -> Run {
        let seed = std::env::var("VERIF_SEED")
            .ok()
            .and_then(|s| s.parse::<u64>().ok())
            .unwrap_or(0);
        let threads = std::env::var("VERIF_THREADS")
            .ok()
            .and_then(|s| s.parse::<usize>().ok())
            .unwrap_or_else(|| {
                std::thread::available_parallelism().map(|n| n.get()).unwrap_or(8)
            });
        Run {
            prop,
            tier,
            seed,
            start: Instant::now(),
            threads,
            shared: Mutex::new(Shared::default()),
        }
    }

    /// Process all items on `threads` workers; each worker first runs `init`
    /// (e.g. sets its thread's rounding mode). Work distribution is dynamic
    /// but what is enumerated is fixed by `items`.
    pub fn par_for<T: Sync>(
        &self,
        items: &[T],
        init: impl Fn() + Sync,
        f: impl Fn(&T, &mut Local) + Sync,
    ) {
        self.par_for_n(self.threads, items, init, f)
    }

    /// `par_for` with an explicit number of workers.
    pub fn par_for_n<T: Sync>(
        &self,
        workers: usize,
        items: &[T],
        init: impl Fn() + Sync,
        f: impl Fn(&T, &mut Local) + Sync,
    ) {
        let next = AtomicUsize::new(0);
        let n = items.len();
        let workers = workers.max(1);
        let chunk = (n / (workers * 64)).max(1);
        std::thread::scope(|s| {
            for _ in 0..workers.min(n.max(1)) {
                s.spawn(|| {
                    init();
                    let mut local = Local::new(self);
                    loop {
                        let i = next.fetch_add(chunk, Ordering::Relaxed);
                        if i >= n {
                            break;
                        }
                        for it in &items[i..(i + chunk).min(n)] {
                            f(it, &mut local);
                        }
                    }
                    local.flush();
                });
            }
        });
    }

    /// `par_for` over every integer of lo..=hi without materialising the range (blocks of 4096).
    pub fn par_range(&self, lo: i128, hi: i128, init: impl Fn() + Sync, f: impl Fn(i128, &mut Local) + Sync) {
        const B: i128 = 4096;
        let blocks: Vec<i128> = (0..=((hi - lo) / B)).collect();
        self.par_for(&blocks, init, |&b, l| {
            let start = lo + b * B;
            let end = (start + B - 1).min(hi);
            let mut a = start;
            while a <= end {
                f(a, l);
                a += 1;
            }
        });
    }

    /// Sequential variant (main thread), same Local interface.
    pub fn seq(&self, f: impl FnOnce(&mut Local)) {
        let mut local = Local::new(self);
        f(&mut local);
        local.flush();
    }

    pub fn stage(&self, name: &str, info: Value) {
        let mut sh = self.shared.lock().unwrap();
        let evals = sh.evals;
        sh.stages.push(json!({"stage": name, "info": info, "evaluations_so_far": evals,
            "t_s": self.start.elapsed().as_secs_f64()}));
        eprintln!(
            "[{} {:7.1}s] stage {} done; evaluations so far {}",
            self.prop,
            self.start.elapsed().as_secs_f64(),
            name,
            evals
        );
    }

    pub fn set_extra(&self, key: &str, v: Value) {
        self.shared.lock().unwrap().extra.insert(key.to_string(), v);
    }

    pub fn evals(&self) -> u64 {
        self.shared.lock().unwrap().evals
    }

    pub fn class_count(&self, code: u64) -> u64 {
        *self.shared.lock().unwrap().classes.get(&code).unwrap_or(&0)
    }

    pub fn violations(&self) -> BTreeMap<String, VioRec> {
        self.shared.lock().unwrap().violations.clone()
    }
}

pub struct Finish<'a> {
    pub run: &'a Run,
    pub level: &'static str,
    pub rule: String,
    pub exhaustive: bool,
    pub assumptions: Vec<String>,
    /// decode a class code into a readable name
    pub class_name: &'a dyn Fn(u64) -> String,
    /// classes that must be populated (machinery failure if not)
    /// each group needs at least one populated class
    pub required: Vec<Vec<u64>>,
    /// re-execute a witness; returns Some((site, detail)) if it violates
    pub replay: &'a dyn Fn(&Value) -> Vec<(String, String)>,
}

fn known_findings(prop: &str) -> Vec<(String, String)> {
    // lines: known: property=<ID> site=<key> :: <description>
    let path = std::env::var("VERIF_KNOWN").unwrap_or_else(|_| "/verif/KNOWN_FINDINGS.txt".into());
    let mut v = Vec::new();
    if let Ok(txt) = std::fs::read_to_string(&path) {
        for line in txt.lines() {
            let line = line.trim();
            if let Some(rest) = line.strip_prefix("known:") {
                let rest = rest.trim();
                let want = format!("property={} ", prop);
                if let Some(r2) = rest.strip_prefix(&want) {
                    if let Some(r3) = r2.trim().strip_prefix("site=") {
                        let (site, desc) = match r3.split_once(" :: ") {
                            Some((a, b)) => (a.trim().to_string(), b.trim().to_string()),
                            None => (r3.trim().to_string(), String::new()),
                        };
                        v.push((site, desc));
                    }
                }
            }
        }
    }
    v
}

/// Finish a run: gates, replay confirmation, verdict lines, evidence file.
/// Returns the process exit code.
pub fn finish(f: Finish) -> i32 {
    let run = f.run;
    let sh = run.shared.lock().unwrap();
    let wall = run.start.elapsed().as_secs_f64();
    let mut machinery_fail: Vec<String> = Vec::new();

    // non-vacuity gate
    for group in &f.required {
        if !group.iter().any(|code| sh.classes.get(code).copied().unwrap_or(0) > 0) {
            machinery_fail.push(format!(
                "required coverage class empty: {}",
                group.iter().map(|c| (f.class_name)(*c)).collect::<Vec<_>>().join(" | ")
            ));
        }
    }

    let known = known_findings(run.prop);
    let mut n_new = 0u64;
    let mut n_known = 0u64;
    let mut vio_list = Vec::new();
    let mut printed = 0;
    let out_dir = std::env::var("VERIF_OUT").unwrap_or_else(|_| "/verif".into());
    let _ = std::fs::create_dir_all(format!("{}/replays", out_dir));
    for (k, (site, rec)) in sh.violations.iter().enumerate() {
        let is_known = known.iter().find(|(s, _)| s == site);
        // replay twice
        let r1 = (f.replay)(&rec.witness);
        let r2 = (f.replay)(&rec.witness);
        let reproduced = r1.iter().any(|(s, _)| s == site) && r2.iter().any(|(s, _)| s == site) && r1 == r2;
        if !reproduced {
            machinery_fail.push(format!(
                "violation at site '{}' did not reproduce on replay (r1={:?}, r2={:?}) witness={}",
                site, r1, r2, rec.witness
            ));
            continue;
        }
        if let Some((_, desc)) = is_known {
            n_known += rec.count;
            println!(
                "KNOWN-FINDING: property={} site={} :: {} ({} cases this run; e.g. {})",
                run.prop, site, desc, rec.count, rec.witness
            );
            vio_list.push(json!({"site": site, "known": true, "count": rec.count, "witness": rec.witness, "detail": rec.detail}));
        } else {
            n_new += rec.count;
            let path = format!("{}/replays/{}-{}.json", out_dir, run.prop, k);
            let body = json!({"property": run.prop, "site": site, "witness": rec.witness, "detail": rec.detail, "count": rec.count});
            let _ = std::fs::write(&path, serde_json::to_string_pretty(&body).unwrap());
            if printed < 20 {
                println!("VIOLATION property={} replay={}", run.prop, path);
                println!("  site: {}", site);
                println!("  detail: {}", rec.detail);
                println!("  cases: {}", rec.count);
                printed += 1;
            }
            vio_list.push(json!({"site": site, "known": false, "count": rec.count, "witness": rec.witness, "detail": rec.detail, "replay": path}));
        }
    }

    // evidence
    let mut classes = Map::new();
    let mut named: BTreeMap<String, u64> = BTreeMap::new();
    for (code, n) in sh.classes.iter() {
        *named.entry((f.class_name)(*code)).or_insert(0) += n;
    }
    for (k, v) in named.iter() {
        classes.insert(k.clone(), json!(v));
    }
    let mut samples: Vec<Value> = Vec::new();
    // rotate which samples are written by seed (never what is enumerated)
    let all: Vec<(&u64, &Value)> = sh.samples.iter().collect();
    let n_s = all.len();
    let take = 24.min(n_s);
    for i in 0..take {
        let idx = if n_s == 0 { 0 } else { (i * n_s / take + run.seed as usize) % n_s };
        let (code, v) = all[idx];
        samples.push(json!({"class": (f.class_name)(*code), "case": v}));
    }
    if samples.is_empty() {
        samples.push(json!("(no samples recorded)"));
    }
    let mut cov = Map::new();
    cov.insert("evaluations".into(), json!(sh.evals));
    cov.insert("distinct_nontrivial".into(), json!(sh.distinct));
    cov.insert("rule".into(), json!(f.rule));
    cov.insert("samples".into(), Value::Array(samples));
    cov.insert("exhaustive".into(), json!(f.exhaustive));
    cov.insert("classes_populated".into(), json!(named.len()));
    cov.insert("required_class_groups_checked".into(), json!(f.required.len()));
    cov.insert("class_populations".into(), Value::Object(classes));
    cov.insert("distinct_observed_outcomes".into(), json!(sh.outcomes.len()));
    cov.insert("stages".into(), Value::Array(sh.stages.clone()));
    cov.insert("violation_sites".into(), Value::Array(vio_list));
    cov.insert("known_finding_cases".into(), json!(n_known));
    cov.insert("threads".into(), json!(run.threads));
    if let Ok(root) = std::env::var("VERIF_ROOT") {
        if let Ok(t) = std::fs::read_to_string(format!("{}/target/oracle.log", root)) {
            cov.insert("reference_model_validation".into(), json!(t.lines().last().unwrap_or("").to_string()));
        }
    }
    if !machinery_fail.is_empty() {
        cov.insert("machinery_failures".into(), json!(machinery_fail));
    }
    for (k, v) in sh.extra.iter() {
        cov.insert(k.clone(), v.clone());
    }
    let ev = json!({
        "property_id": run.prop,
        "tier": run.tier.name(),
        "seed": run.seed,
        "level": f.level,
        "coverage": Value::Object(cov),
        "assumptions": f.assumptions,
        "wall_s": wall,
        "violations": n_new,
    });
    let _ = std::fs::create_dir_all(format!("{}/evidence", out_dir));
    let path = format!("{}/evidence/{}.json", out_dir, run.prop);
    std::fs::write(&path, serde_json::to_string_pretty(&ev).unwrap()).expect("write evidence");

    eprintln!(
        "[{}] {} tier: {} evaluations, {} distinct non-trivial, {} classes, {} new violation cases, {} known-finding cases, {:.1}s",
        run.prop,
        run.tier.name(),
        sh.evals,
        sh.distinct,
        named.len(),
        n_new,
        n_known,
        wall
    );
    if !machinery_fail.is_empty() {
        for m in &machinery_fail {
            eprintln!("MACHINERY-FAILURE: {}", m);
        }
        return 2;
    }
    if n_new > 0 {
        1
    } else {
        0
    }
}

/// FNV-1a for outcome hashing.
pub fn fnv(data: &[u8]) -> u64 {
    let mut h: u64 = 0xcbf29ce484222325;
    for b in data {
        h ^= *b as u64;
        h = h.wrapping_mul(0x100000001b3);
    }
    h
}

pub fn hash_i128s(vals: &[i128]) -> u64 {
    let mut h: u64 = 0xcbf29ce484222325;
    for v in vals {
        for b in v.to_le_bytes() {
            h ^= b as u64;
            h = h.wrapping_mul(0x100000001b3);
        }
    }
    h
}
