//! C07: Display/ToString is canonical and round-trips through the parser.

use crate::alpha::{self, Level};
use crate::big::U512;
use crate::runner::*;
use fpdec::Decimal;
use serde_json::{json, Value};
use std::str::FromStr;

/// The canonical text of (a, f): optional '-', integer part without leading
/// zeros, and iff f > 0 a '.' followed by exactly f digits. Built from the
/// 512-bit reference arithmetic's decimal expansion (not from i128 Display).
pub fn canonical(a: i128, f: u8) -> String {
    let digits = U512::from_u128(a.unsigned_abs()).to_dec_string();
    let mut d = digits;
    if f > 0 {
        while d.len() < f as usize + 1 { d.insert(0, '0'); }
        let cut = d.len() - f as usize;
        d = format!("{}.{}", &d[..cut], &d[cut..]);
    }
    if a < 0 { format!("-{}", d) } else { d }
}

fn sc(prod: &str, got: Result<String, ()>, want: &str, a: i128, f: u8, l: &mut Local) {
    l.evals += 1;
    match got {
        Ok(s) if s == want => { l.outcome(fnv(s.as_bytes())); }
        Ok(s) => {
            let kind = if s.trim_start_matches('-') == want.trim_start_matches('-') { "sign differs" } else { "text differs" };
            let cls = if a < 0 && a.unsigned_abs() < 10u128.pow(f as u32) { "negative, |value|<1" } else if a == 0 { "zero" } else if f == 0 { "scale 0" } else { "general" };
            l.violation(format!("{} | {} | {}", prod, cls, kind), || (format!("{}(({},{})) = {:?}, canonical {:?}", prod, a, f, s, want), json!({"a": a.to_string(), "f": f})));
        }
        Err(()) => l.violation(format!("{} | any | panicked", prod), || (format!("{}(({},{})) panicked", prod, a, f), json!({"a": a.to_string(), "f": f}))),
    }
}

pub fn case(a: i128, f: u8, l: &mut Local) {
    let d = Decimal::new_raw(a, f);
    let want = canonical(a, f);
    let c = ((a < 0) as u64) << 6 | ((a == 0) as u64) << 5 | f as u64;
    if l.class(c) { l.sample(c, json!({"coeff": a.to_string(), "scale": f, "canonical": want})); }
    l.distinct += 1;
    sc("to_string", catch(|| d.to_string()), &want, a, f, l);
    sc("String::from", catch(|| String::from(d)), &want, a, f, l);
    sc("Into<String>", catch(|| { let s: String = d.into(); s }), &want, a, f, l);
    sc("format!({})", catch(|| format!("{}", d)), &want, a, f, l);
    sc("Debug", catch(|| format!("{:?}", d)), &format!("Dec!({})", want), a, f, l);
    sc("serde_json::to_string", catch(|| serde_json::to_string(&d).unwrap_or_else(|e| format!("ERR {}", e))), &format!("\"{}\"", want), a, f, l);
    // consumers: parsing the canonical text gives back (a, f) exactly
    l.evals += 2;
    match catch(|| Decimal::from_str(&want)) {
        Ok(Ok(r)) if r.coefficient() == a && r.n_frac_digits() == f => {}
        other => l.violation("from_str(to_string) | round trip | not the identity".to_string(), || (format!("from_str({:?}) = {:?}, expected ({},{})", want, other.map(|r| r.map(|d| (d.coefficient(), d.n_frac_digits()))), a, f), json!({"a": a.to_string(), "f": f}))),
    }
    let js = format!("\"{}\"", want);
    match catch(|| serde_json::from_str::<Decimal>(&js)) {
        Ok(Ok(r)) if r.coefficient() == a && r.n_frac_digits() == f => {}
        other => l.violation("serde_json::from_str(serialized) | round trip | not the identity".to_string(), || (format!("from_str({:?}) = {:?}, expected ({},{})", js, other.map(|r| r.map(|d| (d.coefficient(), d.n_frac_digits())).map_err(|e| e.to_string())), a, f), json!({"a": a.to_string(), "f": f}))),
    }
}

pub fn replay(w: &Value) -> Vec<(String, String)> {
    let run = Run::new("C07", Tier::Quick);
    run.seq(|l| case(w["a"].as_str().unwrap().parse().unwrap(), w["f"].as_u64().unwrap() as u8, l));
    run.violations().into_iter().map(|(s, r)| (s, r.detail)).collect()
}

fn class_name(c: u64) -> String {
    format!("{}/scale {}", if (c >> 6) & 1 == 1 { "negative" } else if (c >> 5) & 1 == 1 { "zero" } else { "positive" }, c & 31)
}

pub fn run(tier: Tier) -> i32 {
    let run = Run::new("C07", tier);
    let n: i128 = if tier.thorough() { 60_000_000 } else { 1_500_000 };
    run.par_range(-n, n, || {}, |a, l| { for f in 0..=18u8 { case(a, f, l); } });
    run.stage("complete small scope", json!({"|a|<=": n, "scales": 19}));
    let k = alpha::coeffs(2, 50, if tier.thorough() { Level::Thorough } else { Level::Mid });
    run.par_for(&k, || {}, |&a, l| { if a.abs() > n { for f in 0..=18u8 { case(a, f, l); } } });
    run.stage("coefficient alphabet", json!({"coefficients": k.len(), "scales": 19}));
    // composed values: a boundary INTEGRAL PART (word / digit-count boundaries +-1) followed by a fraction, at every
    // scale - the integral and the fractional part are rendered separately, so a boundary of the integral part is
    // invisible to coefficient boundaries at scale > 0 (seeded change C07-h1: integral part exactly 2^64)
    let mut ints: Vec<i128> = Vec::new();
    for b in [8u32, 16, 31, 32, 53, 63, 64, 65, 96] { for d in [-1i128, 0, 1] { ints.push((1i128 << b) + d); } }
    for e in [9u32, 10, 18, 19, 20] { for d in [-1i128, 0, 1] { ints.push(alpha::pow10(e) + d); } }
    let mut comp: Vec<(i128, u8)> = Vec::new();
    for &ip in &ints { for f in 1..=18u8 {
        let p = alpha::pow10(f as u32);
        if let Some(base) = ip.checked_mul(p) { for fr in [0i128, 1, p / 2, p - 1] { if let Some(c) = base.checked_add(fr) { if c != i128::MIN { comp.push((c, f)); comp.push((-c, f)); } } } }
    } }
    run.par_for(&comp, || {}, |&(a, f), l| case(a, f, l));
    run.stage("boundary integral parts composed with a fraction", json!({"integral_parts": ints.len(), "scales": 18, "fractions": "0, 1 ulp, one half, all nines", "cases": comp.len()}));
    let mut required = Vec::new();
    for f in 0..=18u64 { required.push(vec![f]); required.push(vec![(1 << 6) | f]); required.push(vec![(1 << 5) | f]); }
    finish(Finish {
        run: &run,
        level: "model_checking",
        rule: "Complete enumeration of (coefficient, scale): all |a|<=N x 19 scales, and the boundary coefficient alphabet (every power-of-ten digit-count boundary +-2, powers of two, limb patterns, generic digit strings up to 2^127-1) x 19 scales. Six producers (to_string, String::from, Into<String>, format!, Debug, serde_json::to_string) and two consumers (from_str, serde_json::from_str) per case. Every pair is distinct and non-trivial.".into(),
        exhaustive: true,
        assumptions: vec!["canonical text built from the reference arithmetic's own decimal expansion".into()],
        class_name: &class_name,
        required,
        replay: &replay,
    })
}
