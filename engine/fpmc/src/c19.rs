//! C19: the default rounding mode is per thread and starts as HalfEven.
//!
//! Stateless exploration of all interleavings of small multi-threaded
//! programs over REAL OS threads (the mechanism under test is std's
//! thread_local!): each thread runs a script, a step is one public API call,
//! the scheduler releases exactly one step at a time through a rendezvous and
//! waits for its observation, so a schedule (sequence of thread ids)
//! determines the execution completely. Every schedule runs on fresh threads.

use crate::runner::*;
use crate::spec::*;
use fpdec::{CheckedDiv, Decimal, DivRounded, MulRounded, Quantize, Round, RoundingMode};
use serde_json::{json, Value};
use std::collections::HashSet;

#[derive(Clone, Copy, PartialEq, Eq, Debug, Hash)]
pub enum Step { Set(u8), Get, Op(u8),
    /// the thread terminates here (its thread-local destructors run) and is joined before the next step starts
    Exit }

pub const OP_NAMES: [&str; 30] = ["round", "div_rounded", "mul_rounded", "*", "/", "quantize", "format!({:.0})", "* (product beyond i128)", "/ (scaled dividend beyond i128)", "mul_rounded (product beyond i128)", "div_rounded (scaled dividend beyond i128)",
    // the other operand forms and entry points that consult the thread's mode
    "checked_round", "Decimal/i32", "i64/Decimal", "Decimal.div_rounded(i32)", "i32.div_rounded(Decimal)", "i32.div_rounded(i32)", "checked_div", "Decimal.checked_div(u8)", "i64.checked_div(Decimal)",
    "Decimal/=Decimal", "Decimal/=i64", "Decimal*=Decimal", "&Decimal/&Decimal", "&Decimal*&Decimal", "Decimal/i128", "i128/Decimal", "format!({:>8.0})", "&Decimal.mul_rounded(&Decimal)", "&Decimal.div_rounded(&Decimal)"];
pub const N_KINDS: u8 = 30;
/// Kinds below this index are crossed with all 64 mode pairs in the interleaving families; the operand-form
/// kinds above it with 8 mode pairs each (every mode once on either thread).
pub const N_CORE_KINDS: u8 = 11;
const BIG_K: i128 = 10_000_000_000_000_000_000_000; // 10^22

/// Probe dividends in tenths: +-2.5, +-1.5, +-2.1, +-2.6, +-10.1, +-0.5, +-0.9
const PROBES: [i128; 14] = [25, -25, 15, -15, 21, -21, 26, -26, 101, -101, 5, -5, 9, -9];

fn to18(d: Decimal) -> i128 {
    d.coefficient() * 10i128.pow(18 - d.n_frac_digits() as u32)
}

/// Evaluate probe vector with operation `k` under the calling thread's
/// default mode; every entry is round(v / 10) expressed as an integer.
fn probe(k: u8) -> Vec<i128> {
    PROBES.iter().map(|&v| match k {
        0 => Decimal::new_raw(v, 1).round(0).coefficient(),
        1 => Decimal::new_raw(v, 0).div_rounded(Decimal::new_raw(10, 0), 0).coefficient(),
        2 => Decimal::new_raw(v, 1).mul_rounded(Decimal::new_raw(1, 0), 0).coefficient(),
        // (v, 18) * 0.1 has 19 fractional digits -> rounded to 18
        3 => (Decimal::new_raw(v, 18) * Decimal::new_raw(1, 1)).coefficient(),
        // (v e-18) / 10 -> rounded to 18 digits, then normalised
        4 => to18(Decimal::new_raw(v, 18) / Decimal::new_raw(10, 0)),
        5 => { let q = Decimal::new_raw(v, 1).quantize(Decimal::new_raw(1, 0)); q.coefficient() / 10i128.pow(q.n_frac_digits() as u32) }
        6 => format!("{:.0}", Decimal::new_raw(v, 1)).parse::<i128>().unwrap(),
        // the 256-bit paths: x = sign(v)*(10^23 + |v|), so that the result is sign(v)*(10^22 + round(|v|/10)) and
        // the intermediate (product resp. scaled dividend, ~10^40) exceeds 128 bits
        7 => (Decimal::new_raw(v.signum() * (10 * BIG_K + v.abs()), 18) * Decimal::new_raw(10i128.pow(17), 18)).coefficient() - v.signum() * BIG_K,
        8 => to18(Decimal::new_raw(v.signum() * (10 * BIG_K + v.abs()), 0) / Decimal::new_raw(10i128.pow(19), 0)) - v.signum() * BIG_K,
        9 => Decimal::new_raw(v.signum() * (10 * BIG_K + v.abs()), 18).mul_rounded(Decimal::new_raw(10i128.pow(17), 18), 18).coefficient() - v.signum() * BIG_K,
        10 => Decimal::new_raw(v.signum() * (10 * BIG_K + v.abs()), 0).div_rounded(Decimal::new_raw(10i128.pow(19), 0), 18).coefficient() - v.signum() * BIG_K,
        11 => Decimal::new_raw(v, 1).checked_round(0).unwrap().coefficient(),
        12 => to18(Decimal::new_raw(v, 18) / 10_i32),
        13 => to18((v as i64) / Decimal::new_raw(10i128.pow(19), 0)),
        14 => Decimal::new_raw(v, 0).div_rounded(10_i32, 0).coefficient(),
        15 => (v as i32).div_rounded(Decimal::new_raw(10, 0), 0).coefficient(),
        16 => (v as i32).div_rounded(10_i32, 0).coefficient(),
        17 => to18(CheckedDiv::checked_div(Decimal::new_raw(v, 18), Decimal::new_raw(10, 0)).unwrap()),
        18 => to18(CheckedDiv::checked_div(Decimal::new_raw(v, 18), 10_u8).unwrap()),
        19 => to18(CheckedDiv::checked_div(v as i64, Decimal::new_raw(10i128.pow(19), 0)).unwrap()),
        20 => { let mut z = Decimal::new_raw(v, 18); z /= Decimal::new_raw(10, 0); to18(z) }
        21 => { let mut z = Decimal::new_raw(v, 18); z /= 10_i64; to18(z) }
        22 => { let mut z = Decimal::new_raw(v, 18); z *= Decimal::new_raw(1, 1); z.coefficient() }
        23 => to18(&Decimal::new_raw(v, 18) / &Decimal::new_raw(10, 0)),
        24 => (&Decimal::new_raw(v, 18) * &Decimal::new_raw(1, 1)).coefficient(),
        25 => to18(Decimal::new_raw(v, 18) / 10_i128),
        26 => to18((v as i128) / Decimal::new_raw(10i128.pow(19), 0)),
        27 => format!("{:>8.0}", Decimal::new_raw(v, 1)).trim().parse::<i128>().unwrap(),
        28 => (&Decimal::new_raw(v, 1)).mul_rounded(&Decimal::new_raw(1, 0), 0).coefficient(),
        29 => (&Decimal::new_raw(v, 0)).div_rounded(&Decimal::new_raw(10, 0), 0).coefficient(),
        _ => unreachable!(),
    }).collect()
}

fn signature(mode: RoundingMode) -> Vec<i128> {
    // the reference model's rounding (spec::round_div), not the library's
    PROBES.iter().map(|&v| round_div(&crate::big::I512::from_i128(v), &crate::big::U512::from_u128(10), mode).value.to_i128().unwrap()).collect()
}

/// Decode a probe vector into the mode that produced it (255 if none).
fn decode(v: &[i128], sigs: &[Vec<i128>]) -> u8 {
    sigs.iter().position(|s| s == v).map(|i| i as u8).unwrap_or(255)
}

fn exec_step(s: Step, sigs: &[Vec<i128>]) -> u8 {
    match s {
        Step::Set(m) => { RoundingMode::set_default(ALL_MODES[m as usize]); 254 }
        Step::Get => mode_idx(RoundingMode::default()) as u8,
        Step::Op(k) => decode(&probe(k), sigs),
        Step::Exit => unreachable!("Exit is performed by the scheduler, not by the thread"),
    }
}

/// Execute one schedule on fresh OS threads. Returns the observation of every
/// scheduled step, in schedule order. The schedule is a total order of steps:
/// a thread performs its next step only when the shared position counter
/// reaches one of its own schedule slots, and advances the counter afterwards,
/// so exactly one API call is in flight at any time and the schedule
/// determines the execution completely.
pub fn execute(scripts: &[Vec<Step>], schedule: &[u8], sigs: &[Vec<i128>]) -> Vec<u8> {
    use std::sync::atomic::{AtomicU8, AtomicUsize, Ordering};
    let pos = AtomicUsize::new(0);
    let obs: Vec<AtomicU8> = schedule.iter().map(|_| AtomicU8::new(253)).collect();
    // Thread termination is a scheduling event too (thread-local destructors run then): a thread whose script ends
    // with Step::Exit returns at that slot and the controller joins it - destructors included - before the position
    // counter moves on; every other thread stays alive until the whole schedule has been executed. Without this,
    // WHEN a finished thread terminates relative to the other threads' later steps would be up to the OS, and a
    // defect in a thread-exit hook would show up irreproducibly (seeded change C19-m5).
    let n_steps = schedule.len();
    std::thread::scope(|sc| {
        let mut handles = Vec::new();
        for (t, script) in scripts.iter().enumerate() {
            let (pos, obs) = (&pos, &obs);
            handles.push(Some(sc.spawn(move || {
                let mut pc = 0usize;
                for (i, &who) in schedule.iter().enumerate() {
                    if who as usize != t { continue; }
                    // wait for my slot
                    let mut spins = 0u32;
                    while pos.load(Ordering::Acquire) != i {
                        spins += 1;
                        if spins < 200 { std::hint::spin_loop(); } else { std::thread::yield_now(); }
                    }
                    if script[pc] == Step::Exit { return; } // the controller joins this thread and advances the counter
                    let o = exec_step(script[pc], sigs);
                    pc += 1;
                    obs[i].store(o, Ordering::Relaxed);
                    pos.store(i + 1, Ordering::Release);
                }
                // stay alive until every step of every thread has been executed
                while pos.load(Ordering::Acquire) < n_steps { std::thread::yield_now(); }
            })));
        }
        // controller: performs the Exit slots
        let mut pcs = vec![0usize; scripts.len()];
        for (i, &who) in schedule.iter().enumerate() {
            let t = who as usize;
            let step = scripts[t][pcs[t]];
            pcs[t] += 1;
            if step != Step::Exit { continue; }
            while pos.load(Ordering::Acquire) != i { std::thread::yield_now(); }
            handles[t].take().expect("thread exits once").join().expect("thread panicked");
            obs[i].store(252, Ordering::Relaxed);
            pos.store(i + 1, Ordering::Release);
        }
    });
    assert_eq!(pos.load(std::sync::atomic::Ordering::Acquire), schedule.len(), "schedule not completed");
    obs.iter().map(|o| o.load(std::sync::atomic::Ordering::Relaxed)).collect()
}

fn enc_step(s: Step) -> String { match s { Step::Set(m) => format!("S{}", m), Step::Get => "G".into(), Step::Op(k) => format!("O{}", k), Step::Exit => "X".into() } }
fn dec_step(s: &str) -> Step { match &s[..1] { "S" => Step::Set(s[1..].parse().unwrap()), "G" => Step::Get, "X" => Step::Exit, _ => Step::Op(s[1..].parse().unwrap()) } }

/// Run `f` in a forked child of this (single-threaded) executor process and
/// return the bytes it produces. Every schedule thus starts from the pristine
/// process state (no thread-local AND no process-global leftovers of earlier
/// schedules), which is what makes the search stateless.
fn in_fork(f: impl FnOnce() -> Vec<u8>) -> Vec<u8> {
    unsafe {
        let mut fds = [0i32; 2];
        assert_eq!(libc::pipe(fds.as_mut_ptr()), 0, "pipe");
        let pid = libc::fork();
        assert!(pid >= 0, "fork");
        if pid == 0 {
            libc::close(fds[0]);
            let out = std::panic::catch_unwind(std::panic::AssertUnwindSafe(f)).unwrap_or_else(|_| vec![0xEE]);
            let mut off = 0;
            while off < out.len() {
                let n = libc::write(fds[1], out[off..].as_ptr() as *const libc::c_void, out.len() - off);
                if n <= 0 { break; }
                off += n as usize;
            }
            libc::_exit(0);
        }
        libc::close(fds[1]);
        let mut buf = Vec::new();
        let mut tmp = [0u8; 256];
        loop {
            let n = libc::read(fds[0], tmp.as_mut_ptr() as *mut libc::c_void, tmp.len());
            if n <= 0 { break; }
            buf.extend_from_slice(&tmp[..n as usize]);
        }
        libc::close(fds[0]);
        let mut status = 0;
        libc::waitpid(pid, &mut status, 0);
        buf
    }
}

/// Executor process: reads request lines
///   X;scripts;schedule,schedule,...   execute every schedule (each in a forked child, on fresh OS threads)
///   L;m,m2,k                          execute the lifecycle history (in a forked child)
/// and answers with one line of hex-encoded observations per request. One
/// executor per exploring worker: thread creation in separate processes does
/// not contend on one address space.
pub fn executor_main() {
    use std::io::{BufRead, Write};
    let sigs: Vec<Vec<i128>> = ALL_MODES.iter().map(|m| signature(*m)).collect();
    let stdin = std::io::stdin();
    let stdout = std::io::stdout();
    let mut out = stdout.lock();
    for line in stdin.lock().lines() {
        let line = match line { Ok(l) => l, Err(_) => break };
        if line.is_empty() { continue; }
        let mut resp = String::new();
        if let Some(rest) = line.strip_prefix("L;") {
            let v: Vec<u8> = rest.split(',').map(|x| x.parse().unwrap()).collect();
            let obs = in_fork(|| lifecycle_exec(&sigs, v[0], v[1], v[2]));
            for o in obs { resp.push_str(&format!("{:02x}", o)); }
        } else {
            let rest = line.strip_prefix("X;").unwrap_or(&line);
            let (sc, sch) = rest.split_once(';').unwrap();
            let scripts: Vec<Vec<Step>> = sc.split('|').map(|t| t.split(',').map(dec_step).collect()).collect();
            for s in sch.split(',') {
                let schedule: Vec<u8> = s.bytes().map(|b| b - b'0').collect();
                let obs = in_fork(|| execute(&scripts, &schedule, &sigs));
                for o in obs { resp.push_str(&format!("{:02x}", o)); }
                resp.push(',');
            }
        }
        writeln!(out, "{}", resp).unwrap();
        out.flush().unwrap();
    }
}

pub struct Executor { child: std::process::Child, stdin: std::process::ChildStdin, stdout: std::io::BufReader<std::process::ChildStdout> }

impl Executor {
    pub fn spawn() -> Executor {
        let exe = std::env::current_exe().expect("current_exe");
        let mut child = std::process::Command::new(exe).arg("c19-exec").arg("x").stdin(std::process::Stdio::piped()).stdout(std::process::Stdio::piped()).spawn().expect("spawn executor");
        let stdin = child.stdin.take().unwrap();
        let stdout = std::io::BufReader::new(child.stdout.take().unwrap());
        Executor { child, stdin, stdout }
    }
    /// Execute all `schedules` of `scripts` in the executor process.
    pub fn run(&mut self, scripts: &[Vec<Step>], schedules: &[Vec<u8>]) -> Vec<Vec<u8>> {
        use std::io::{BufRead, Write};
        let sc: Vec<String> = scripts.iter().map(|t| t.iter().map(|s| enc_step(*s)).collect::<Vec<_>>().join(",")).collect();
        let sch: Vec<String> = schedules.iter().map(|s| s.iter().map(|b| (b'0' + b) as char).collect()).collect();
        writeln!(self.stdin, "X;{};{}", sc.join("|"), sch.join(",")).expect("executor stdin");
        self.stdin.flush().unwrap();
        let mut line = String::new();
        self.stdout.read_line(&mut line).expect("executor stdout");
        let res: Vec<Vec<u8>> = line.trim().split(',').filter(|s| !s.is_empty()).map(|h| (0..h.len() / 2).map(|i| u8::from_str_radix(&h[2 * i..2 * i + 2], 16).unwrap()).collect()).collect();
        assert_eq!(res.len(), schedules.len(), "executor answered {} of {} schedules", res.len(), schedules.len());
        for (r, s) in res.iter().zip(schedules.iter()) { assert_eq!(r.len(), s.len(), "executor: incomplete observation vector"); }
        res
    }
    pub fn lifecycle(&mut self, m: u8, m2: u8, k: u8) -> Vec<u8> {
        use std::io::{BufRead, Write};
        writeln!(self.stdin, "L;{},{},{}", m, m2, k).expect("executor stdin");
        self.stdin.flush().unwrap();
        let mut line = String::new();
        self.stdout.read_line(&mut line).expect("executor stdout");
        let h = line.trim();
        let v: Vec<u8> = (0..h.len() / 2).map(|i| u8::from_str_radix(&h[2 * i..2 * i + 2], 16).unwrap()).collect();
        assert_eq!(v.len(), 8, "executor: incomplete lifecycle observation");
        v
    }
}

impl Drop for Executor { fn drop(&mut self) { let _ = self.child.kill(); let _ = self.child.wait(); } }

thread_local! { static EXEC: std::cell::RefCell<Option<Executor>> = const { std::cell::RefCell::new(None) }; }

fn run_lifecycle(m: u8, m2: u8, k: u8) -> Vec<u8> {
    EXEC.with(|e| { let mut e = e.borrow_mut(); if e.is_none() { *e = Some(Executor::spawn()); } e.as_mut().unwrap().lifecycle(m, m2, k) })
}

fn run_batch(scripts: &[Vec<Step>], schedules: &[Vec<u8>]) -> Vec<Vec<u8>> {
    EXEC.with(|e| { let mut e = e.borrow_mut(); if e.is_none() { *e = Some(Executor::spawn()); } e.as_mut().unwrap().run(scripts, schedules) })
}

/// All interleavings of threads with the given step counts.
pub fn interleavings(counts: &[usize]) -> Vec<Vec<u8>> {
    fn rec(rem: &mut Vec<usize>, cur: &mut Vec<u8>, out: &mut Vec<Vec<u8>>) {
        if rem.iter().all(|&r| r == 0) { out.push(cur.clone()); return; }
        for t in 0..rem.len() {
            if rem[t] > 0 { rem[t] -= 1; cur.push(t as u8); rec(rem, cur, out); cur.pop(); rem[t] += 1; }
        }
    }
    let mut out = Vec::new();
    rec(&mut counts.to_vec(), &mut Vec::new(), &mut out);
    out
}

fn show_step(s: Step) -> String {
    match s { Step::Set(m) => format!("Set({})", mode_name(ALL_MODES[m as usize])), Step::Get => "Get".into(), Step::Op(k) => format!("Op({})", OP_NAMES[k as usize]), Step::Exit => "Exit".into() }
}

fn mname(m: u8) -> String { if m == 255 { "<no mode matches>".into() } else { mode_name(ALL_MODES[m as usize]).to_string() } }

/// Run one (scripts, schedule) against the per-thread reference model.
/// Returns (states visited, transitions) and records violations.
fn check_schedule(family: &str, scripts: &[Vec<Step>], schedule: &[u8], _sigs: &[Vec<i128>], l: &mut Local, states: &mut HashSet<Vec<u8>>) {
    let obs = run_batch(scripts, &[schedule.to_vec()]).pop().unwrap();
    check_obs(family, scripts, schedule, &obs, l, states)
}

/// Compare the observations of one executed schedule with the per-thread reference model.
fn check_obs(family: &str, scripts: &[Vec<Step>], schedule: &[u8], obs: &[u8], l: &mut Local, states: &mut HashSet<Vec<u8>>) {
    l.evals += 1;
    let n = scripts.len();
    let mut model = vec![5u8; n]; // RoundHalfEven is index 5
    let mut pcs = vec![0u8; n];
    let key = |pcs: &Vec<u8>, model: &Vec<u8>| { let mut k = pcs.clone(); k.extend_from_slice(model); k };
    states.insert(key(&pcs, &model));
    for (i, &t) in schedule.iter().enumerate() {
        let t = t as usize;
        let step = scripts[t][pcs[t] as usize];
        match step {
            Step::Set(m) => model[t] = m,
            Step::Exit => {} // the thread is gone; nothing to observe, the other threads' modes are untouched
            Step::Get | Step::Op(_) => {
                let want = model[t];
                let got = obs[i];
                if got != want {
                    let others: Vec<u8> = (0..n).filter(|&j| j != t).map(|j| model[j]).collect();
                    let rel = if got == 255 { "result matches no rounding mode" } else if others.contains(&got) && got != 5 { "used another thread's mode" } else if got == 5 && want != 5 { "fell back to RoundHalfEven although the thread set another mode" } else if others.contains(&got) { "used another thread's mode" } else { "used a mode no thread has set" };
                    let what = match step { Step::Get => "RoundingMode::default()".to_string(), Step::Op(k) => format!("Op({})", OP_NAMES[k as usize]), _ => unreachable!() };
                    let scr: Vec<Vec<String>> = scripts.iter().map(|s| s.iter().map(|x| show_step(*x)).collect()).collect();
                    let w = json!({"family": family, "scripts": scripts.iter().map(|s| s.iter().map(|x| match x { Step::Set(m) => json!(["set", m]), Step::Get => json!(["get"]), Step::Op(k) => json!(["op", k]), Step::Exit => json!(["exit"]) }).collect::<Vec<_>>()).collect::<Vec<_>>(), "schedule": schedule});
                    l.violation(format!("{} | {} | {}", family, what, rel), || (format!("thread {} step {} at schedule position {} observed {} but its own mode is {}; scripts={:?} schedule={:?}", t, show_step(step), i, mname(got), mname(want), scr, schedule), w));
                }
            }
        }
        pcs[t] += 1;
        states.insert(key(&pcs, &model));
    }
    l.outcome(fnv(&obs));
}

fn parse_scripts(w: &Value) -> (Vec<Vec<Step>>, Vec<u8>) {
    let scripts = w["scripts"].as_array().unwrap().iter().map(|s| s.as_array().unwrap().iter().map(|x| {
        let a = x.as_array().unwrap();
        match a[0].as_str().unwrap() { "set" => Step::Set(a[1].as_u64().unwrap() as u8), "get" => Step::Get, "exit" => Step::Exit, _ => Step::Op(a[1].as_u64().unwrap() as u8) }
    }).collect()).collect();
    let schedule = w["schedule"].as_array().unwrap().iter().map(|x| x.as_u64().unwrap() as u8).collect();
    (scripts, schedule)
}

pub fn replay(w: &Value) -> Vec<(String, String)> {
    let run = Run::new("C19", Tier::Quick);
    let sigs: Vec<Vec<i128>> = ALL_MODES.iter().map(|m| signature(*m)).collect();
    let fam = w["family"].as_str().unwrap_or("").to_string();
    if fam.starts_with("F3") {
        run.seq(|l| { let mut st = HashSet::new(); lifecycle(&sigs, l, &mut st, w["m"].as_u64().unwrap_or(7) as u8, w["m2"].as_u64().unwrap_or(3) as u8, w["k"].as_u64().unwrap_or(0) as u8); });
    } else {
        let (scripts, schedule) = parse_scripts(w);
        run.seq(|l| { let mut st = HashSet::new(); check_schedule(&fam, &scripts, &schedule, &sigs, l, &mut st); });
    }
    run.violations().into_iter().map(|(s, r)| (s, r.detail)).collect()
}

/// F3: histories with thread death, spawn order and inheritance: the part
/// that runs the real threads; returns [g, o, g0, o0, o1, pg, po, pg2].
fn lifecycle_exec(sigs: &[Vec<i128>], m: u8, m2: u8, k: u8) -> Vec<u8> {
    // (i) T1 sets m and is joined; T2 is spawned afterwards (TLS slot / thread id reuse)
    let sigs1 = sigs.to_vec();
    std::thread::spawn(move || { exec_step(Step::Set(m), &sigs1); exec_step(Step::Op(k), &sigs1) }).join().unwrap();
    let sigs2 = sigs.to_vec();
    let (g, o) = std::thread::spawn(move || (exec_step(Step::Get, &sigs2), exec_step(Step::Op(k), &sigs2))).join().unwrap();
    // (ii) a parent sets m, then spawns a child: no inheritance; child sets m2; parent still sees m
    let sigs3 = sigs.to_vec();
    let ((g0, o0, o1), pg, po, pg2) = std::thread::spawn(move || {
        exec_step(Step::Set(m), &sigs3);
        let sigs4 = sigs3.clone();
        let child = std::thread::spawn(move || {
            let g0 = exec_step(Step::Get, &sigs4);
            let o0 = exec_step(Step::Op(k), &sigs4);
            exec_step(Step::Set(m2), &sigs4);
            let o1 = exec_step(Step::Op(k), &sigs4);
            (g0, o0, o1)
        }).join().unwrap();
        let pg = exec_step(Step::Get, &sigs3);
        let po = exec_step(Step::Op(k), &sigs3);
        // double set on the same thread: last one wins
        exec_step(Step::Set(m2), &sigs3);
        exec_step(Step::Set(m), &sigs3);
        let pg2 = exec_step(Step::Get, &sigs3);
        (child, pg, po, pg2)
    }).join().unwrap();
    vec![g, o, g0, o0, o1, pg, po, pg2]
}

fn lifecycle(_sigs: &[Vec<i128>], l: &mut Local, states: &mut HashSet<Vec<u8>>, m: u8, m2: u8, k: u8) {
    let w = json!({"family": "F3", "m": m, "m2": m2, "k": k});
    let bad = |l: &mut Local, what: &str, got: u8, want: u8| {
        l.violation(format!("F3 lifecycle | {} | observed another mode than RoundHalfEven/own", what), || (format!("{}: observed {} expected {} (m={}, m2={}, op={})", what, mname(got), mname(want), mname(m), mname(m2), OP_NAMES[k as usize]), w.clone()));
    };
    let v = run_lifecycle(m, m2, k);
    let (g, o, g0, o0, o1, pg, po, pg2) = (v[0], v[1], v[2], v[3], v[4], v[5], v[6], v[7]);
    l.evals += 8;
    states.insert(vec![1, m, 5]);
    states.insert(vec![2, m, m2]);
    if g != 5 { bad(l, "thread spawned after another thread set its mode and died: default()", g, 5); }
    if o != 5 { bad(l, "thread spawned after another thread set its mode and died: operation", o, 5); }
    if g0 != 5 { bad(l, "child spawned by a thread with a non-default mode: default()", g0, 5); }
    if o0 != 5 { bad(l, "child spawned by a thread with a non-default mode: operation", o0, 5); }
    if o1 != m2 { bad(l, "child after its own set_default: operation", o1, m2); }
    if pg != m { bad(l, "parent after its child set another mode: default()", pg, m); }
    if po != m { bad(l, "parent after its child set another mode: operation", po, m); }
    if pg2 != m { bad(l, "double set on one thread: default()", pg2, m); }
}

fn class_name(c: u64) -> String {
    match c >> 8 { 0 => "F0 single thread".to_string(), 1 => format!("F1 two threads x three steps/op {}", OP_NAMES[(c & 255) as usize]), 2 => format!("F2 three threads x two steps/op {}", OP_NAMES[(c & 255) as usize]),
        3 => format!("F3 lifecycle/op {}", OP_NAMES[(c & 255) as usize]), 5 => format!("F5 all scripts/op {}", OP_NAMES[(c & 255) as usize]), 6 => format!("F6 thread exit/op {}", OP_NAMES[(c & 255) as usize]), 4 => format!("F4 three threads x three steps/op {}", OP_NAMES[(c & 255) as usize]), _ => format!("class {}", c) }
}

pub fn run(tier: Tier) -> i32 {
    let run = Run::new("C19", tier);
    let th = tier.thorough();
    let sigs: Vec<Vec<i128>> = ALL_MODES.iter().map(|m| signature(*m)).collect();
    // the probe vector must identify the mode: all 8 signatures pairwise distinct, and under the
    // pristine single-thread semantics every operation kind reproduces the signature of the mode set
    for i in 0..8 { for j in 0..i { assert!(sigs[i] != sigs[j], "probe vector does not separate {} and {}", i, j); } }
    // F0: one thread: every operation kind rounds with the mode set on its own thread (8 modes x all kinds)
    run.seq(|l| {
        let mut st = HashSet::new();
        for m in 0..8u8 { for k in 0..N_KINDS {
            check_schedule("F0 single thread", &[vec![Step::Set(m), Step::Op(k), Step::Get]], &[0, 0, 0], &sigs, l, &mut st);
            l.distinct += 1;
        }}
        l.class(0);
    });

    let templates = |m: u8, k: u8| -> Vec<Vec<Step>> { vec![
        vec![Step::Set(m), Step::Op(k), Step::Get],
        vec![Step::Op(k), Step::Set(m), Step::Op(k)],
        vec![Step::Get, Step::Op(k), Step::Get],
    ]};
    let all_states = std::sync::Mutex::new(HashSet::<Vec<u8>>::new());
    let transitions = std::sync::atomic::AtomicU64::new(0);
    let schedules_run = std::sync::atomic::AtomicU64::new(0);

    // F1: two threads x three steps: 20 interleavings x 9 template pairs x 64 mode pairs x 7 op kinds
    let il2 = interleavings(&[3, 3]);
    let mut items: Vec<(u8, u8, u8)> = Vec::new();
    for m1 in 0..8u8 { for m2 in 0..8u8 { for k in 0..N_KINDS { if k < N_CORE_KINDS || m2 == (3 * m1 + k) % 8 { items.push((m1, m2, k)); } } } }
    // one executor process per worker; each executor runs 2-3 threads at a time
    let w2 = (run.threads / 2).max(1);
    let w3 = (run.threads / 3).max(1);
    // quick: the four wide-path kinds run on half of the mode pairs
    let items_f1: Vec<(u8, u8, u8)> = if th { items.clone() } else { items.iter().copied().filter(|&(a, b, k)| k < 7 || k >= N_CORE_KINDS || (a + b) % 2 == 1).collect() };
    run.par_for_n(w2, &items_f1, || {}, |&(m1, m2, k), l| {
        let mut st = HashSet::new();
        let (t1, t2) = (templates(m1, k), templates(m2, k));
        for a in &t1 { for b in &t2 {
            // two never-setting threads explore nothing new after the first mode pair
            if a[0] == Step::Get && b[0] == Step::Get && (m1, m2) != (0, 0) { continue; }
            let scripts = vec![a.clone(), b.clone()];
            let all_obs = run_batch(&scripts, &il2);
            for (s, o) in il2.iter().zip(all_obs.iter()) { check_obs("F1 two threads x three steps", &scripts, s, o, l, &mut st); transitions.fetch_add(s.len() as u64, std::sync::atomic::Ordering::Relaxed); schedules_run.fetch_add(1, std::sync::atomic::Ordering::Relaxed); }
            l.distinct += il2.len() as u64;
        }}
        if l.class(1 << 8 | k as u64) { l.sample(1 << 8 | k as u64, json!({"scripts": [t1[0].iter().map(|x| show_step(*x)).collect::<Vec<_>>(), t2[1].iter().map(|x| show_step(*x)).collect::<Vec<_>>()], "schedule": il2[9], "meaning": "schedule = sequence of thread ids; each entry releases that thread's next API call"})); }
        all_states.lock().unwrap().extend(st.into_iter().map(|mut v| { v.insert(0, 1); v }));
    });
    run.stage("F1 two threads x three steps", json!({"interleavings": il2.len(), "template_pairs": 9, "mode_pairs": "64 for the 11 core kinds, 8 for each of the 19 operand-form kinds", "op_kinds": N_KINDS}));

    // F2: three threads x two steps: 90 interleavings x 64 mode pairs (third thread never sets) x 7 kinds
    let il3 = interleavings(&[2, 2, 2]);
    let items_f2: Vec<(u8, u8, u8)> = if th { items.clone() } else { items.iter().copied().filter(|&(a, b, k)| (a + b + k) % 2 == 0).collect() };
    run.par_for_n(w3, &items_f2, || {}, |&(m1, m2, k), l| {
        let mut st = HashSet::new();
        let variants: Vec<Vec<Vec<Step>>> = vec![
            vec![vec![Step::Set(m1), Step::Op(k)], vec![Step::Set(m2), Step::Op(k)], vec![Step::Op(k), Step::Get]],
            vec![vec![Step::Set(m1), Step::Get], vec![Step::Op(k), Step::Set(m2)], vec![Step::Get, Step::Op(k)]],
        ];
        for scripts in &variants {
            let all_obs = run_batch(scripts, &il3);
            for (s, o) in il3.iter().zip(all_obs.iter()) { check_obs("F2 three threads x two steps", scripts, s, o, l, &mut st); transitions.fetch_add(s.len() as u64, std::sync::atomic::Ordering::Relaxed); schedules_run.fetch_add(1, std::sync::atomic::Ordering::Relaxed); }
            l.distinct += il3.len() as u64;
        }
        if l.class(2 << 8 | k as u64) { l.sample(2 << 8 | k as u64, json!({"scripts": variants[0].iter().map(|s| s.iter().map(|x| show_step(*x)).collect::<Vec<_>>()).collect::<Vec<_>>(), "schedule": il3[40]})); }
        all_states.lock().unwrap().extend(st.into_iter().map(|mut v| { v.insert(0, 2); v }));
    });
    run.stage("F2 three threads x two steps", json!({"interleavings": il3.len(), "script_variants": 2, "mode_pairs": "64 core / 8 operand-form kinds", "op_kinds": N_KINDS}));

    // F3: lifecycle histories
    run.par_for(&items, || {}, |&(m1, m2, k), l| {
        let mut st = HashSet::new();
        lifecycle(&sigs, l, &mut st, m1, m2, k);
        l.distinct += 1;
        l.class(3 << 8 | k as u64);
        all_states.lock().unwrap().extend(st.into_iter().map(|mut v| { v.insert(0, 3); v }));
    });
    run.stage("F3 lifecycle histories", json!({"histories": "set-then-die-then-spawn, set-then-spawn-child (no inheritance), child set vs parent, double set", "mode_pairs": "64 core / 8 operand-form kinds", "op_kinds": N_KINDS}));

    // F5: ALL scripts of up to three steps over the per-thread alphabet {Set(own mode), Set(RoundHalfEven), Op}
    // for both threads (27 x 27 script pairs x 20 interleavings): repeated and redundant set_default calls,
    // set-reset-set sequences, resets while the other thread holds a custom mode
    let own_pairs: Vec<(u8, u8)> = if th { let mut v = Vec::new(); for a in [0u8, 1, 2, 3, 4, 6, 7] { for b in [0u8, 1, 2, 3, 4, 6, 7] { v.push((a, b)); } } v } else { vec![(7, 3), (3, 7), (7, 7), (0, 1)] };
    let all_scripts = |own: u8, k: u8| -> Vec<Vec<Step>> {
        let alpha = [Step::Set(own), Step::Set(5), Step::Op(k)];
        let mut v = Vec::new();
        for a in alpha { for b in alpha { for c in alpha { v.push(vec![a, b, c]); } } }
        v
    };
    let mut it5: Vec<(u8, u8, usize)> = Vec::new();
    for &(a, b) in &own_pairs { for i in 0..27usize { it5.push((a, b, i)); } }
    run.par_for_n(w2, &it5, || {}, |&(a, b, i), l| {
        let mut st = HashSet::new();
        let k = ((a as usize + b as usize + i) % N_KINDS as usize) as u8;
        let sa = all_scripts(a, k);
        let sb = all_scripts(b, (k + 3) % N_KINDS);
        for other in &sb {
            let scripts = vec![sa[i].clone(), other.clone()];
            let all_obs = run_batch(&scripts, &il2);
            for (s, o) in il2.iter().zip(all_obs.iter()) { check_obs("F5 all scripts over {Set(own),Set(HalfEven),Op}", &scripts, s, o, l, &mut st); transitions.fetch_add(s.len() as u64, std::sync::atomic::Ordering::Relaxed); schedules_run.fetch_add(1, std::sync::atomic::Ordering::Relaxed); }
            l.distinct += il2.len() as u64;
        }
        if l.class(5 << 8 | k as u64) { l.sample(5 << 8 | k as u64, json!({"scripts": [sa[i].iter().map(|x| show_step(*x)).collect::<Vec<_>>(), sb[5].iter().map(|x| show_step(*x)).collect::<Vec<_>>()], "schedule": il2[3]})); }
        all_states.lock().unwrap().extend(st.into_iter().map(|mut v| { v.insert(0, 5); v }));
    });
    run.stage("F5 all scripts of three steps over {Set(own), Set(HalfEven), Op}", json!({"script_pairs": 729, "interleavings": il2.len(), "own_mode_pairs": own_pairs.len()}));

    // F6: thread termination as a scheduled event: thread B runs every two-step script over {Set(own), Set(HalfEven)}
    // and then EXITS (joined, thread-local destructors run) at every possible point of thread A's script; A keeps
    // rounding afterwards. Catches exit hooks / guards that touch process-wide state.
    let mut it6: Vec<(u8, u8, u8)> = Vec::new();
    if th { for a in 0..8u8 { for b in 0..8u8 { if a != b { for k in 0..N_KINDS { it6.push((a, b, k)); } } } } }
    else { for a in 0..8u8 { for j in 0..6u8 { it6.push((a, (3 * a + 1 + j) % 8, (5 * a + 7 * j) % N_KINDS)); } } }
    run.par_for_n(w2, &it6, || {}, |&(a, b, k), l| {
        let mut st = HashSet::new();
        let a_scripts = [vec![Step::Set(a), Step::Op(k), Step::Op(k)], vec![Step::Op(k), Step::Set(a), Step::Op(k)]];
        let balpha = [Step::Set(b), Step::Set(5)];
        for sa in &a_scripts { for b1 in balpha { for b2 in balpha {
            let scripts = vec![sa.clone(), vec![b1, b2, Step::Exit]];
            let all_obs = run_batch(&scripts, &il2);
            for (s, o) in il2.iter().zip(all_obs.iter()) { check_obs("F6 thread exit as a scheduled step", &scripts, s, o, l, &mut st); transitions.fetch_add(s.len() as u64, std::sync::atomic::Ordering::Relaxed); schedules_run.fetch_add(1, std::sync::atomic::Ordering::Relaxed); }
            l.distinct += il2.len() as u64;
        }}}
        if l.class(6 << 8 | k as u64) { l.sample(6 << 8 | k as u64, json!({"scripts": [a_scripts[0].iter().map(|x| show_step(*x)).collect::<Vec<_>>(), vec![show_step(Step::Set(b)), show_step(Step::Set(5)), show_step(Step::Exit)]], "schedule": il2[5]})); }
        all_states.lock().unwrap().extend(st.into_iter().map(|mut v| { v.insert(0, 6); v }));
    });
    run.stage("F6 thread exit as a scheduled step", json!({"items": it6.len(), "a_scripts": 2, "b_scripts": 4, "interleavings": il2.len()}));

    // F4 (thorough): three threads x three steps: 1680 interleavings x 8*7*6 mode assignments (op kind rotates)
    if th {
        let il33 = interleavings(&[3, 3, 3]);
        let mut it4: Vec<(u8, u8, u8)> = Vec::new();
        for a in 0..8u8 { for b in 0..8u8 { for c in 0..8u8 { if a != b && b != c && a != c { it4.push((a, b, c)); } } } }
        run.par_for_n(w3, &it4, || {}, |&(a, b, c), l| {
            let mut st = HashSet::new();
            let k = (a + b + c) % N_KINDS;
            let scripts = vec![vec![Step::Set(a), Step::Op(k), Step::Get], vec![Step::Op(k), Step::Set(b), Step::Op(k)], vec![Step::Set(c), Step::Get, Step::Op((k + 1) % N_KINDS)]];
            let all_obs = run_batch(&scripts, &il33);
            for (s, o) in il33.iter().zip(all_obs.iter()) { check_obs("F4 three threads x three steps", &scripts, s, o, l, &mut st); transitions.fetch_add(s.len() as u64, std::sync::atomic::Ordering::Relaxed); schedules_run.fetch_add(1, std::sync::atomic::Ordering::Relaxed); }
            l.distinct += il33.len() as u64;
            l.class(4 << 8 | k as u64);
            all_states.lock().unwrap().extend(st.into_iter().map(|mut v| { v.insert(0, 4); v }));
        });
        run.stage("F4 three threads x three steps", json!({"interleavings": il33.len(), "mode_assignments": it4.len()}));
    }

    // determinism of the harness: one schedule executed twice gives identical observations
    let scripts = vec![vec![Step::Set(7), Step::Op(0), Step::Get], vec![Step::Op(3), Step::Set(3), Step::Op(6)]];
    let o1 = run_batch(&scripts, &[il2[7].clone()]);
    let o2 = run_batch(&scripts, &[il2[7].clone()]);
    assert_eq!(o1, o2, "replaying one schedule twice must give identical observations");

    let n_states = all_states.lock().unwrap().len() as u64;
    run.set_extra("states", json!(n_states));
    run.set_extra("transitions", json!(transitions.load(std::sync::atomic::Ordering::Relaxed)));
    run.set_extra("traces_validated_against_impl", json!(schedules_run.load(std::sync::atomic::Ordering::Relaxed)));
    run.set_extra("scheduler", json!("own controlled scheduler over real OS threads: one API call per scheduling point, rendezvous channels, fresh threads per schedule"));

    let mut required: Vec<Vec<u64>> = Vec::new();
    for k in 0..(N_KINDS as u64) { required.push(vec![1 << 8 | k]); required.push(vec![2 << 8 | k]); required.push(vec![3 << 8 | k]); }
    required.push((0..(N_KINDS as u64)).map(|k| 5 << 8 | k).collect());
    required.push((0..(N_KINDS as u64)).map(|k| 6 << 8 | k).collect());
    finish(Finish {
        run: &run,
        level: "model_checking",
        rule: "All interleavings (depth-first over program counters, no sampling, no reduction) of: F1 two threads x three steps (20 interleavings) x 9 script-template pairs {set-op-get, op-set-op, get-op-get}^2 x 64 mode pairs x 11 core operation kinds (round, div_rounded, mul_rounded, *, /, quantize, Display with precision, and *, /, mul_rounded, div_rounded on operands whose intermediate exceeds 128 bits) plus 8 mode pairs (every mode once on either thread) x 19 operand-form kinds (checked_round, checked_div, the integer-operand forms of / , checked_div and div_rounded in both positions incl. i128, /=, *=, the by-reference forms, Display with width and precision); F0 one thread: every mode x every one of the 30 kinds; F2 three threads x two steps (90 interleavings) x 2 script variants x the same (mode pair, kind) list; F5 ALL script pairs of three steps over the per-thread alphabet {Set(own mode), Set(RoundHalfEven), Op} (729 pairs x 20 interleavings x own-mode pairs: repeated, redundant and reset set_default calls); F3 lifecycle histories (thread dies then another is spawned; parent with non-default mode spawns child; child sets, parent re-observes; double set) x the same (mode pair, kind) list; F6 thread termination as a scheduled step (thread B runs every two-step script over {Set(own), Set(RoundHalfEven)} and then exits - joined, thread-local destructors run - at every point of thread A's set/op script; 8 scripts x 20 interleavings x (mode pair, kind) items); thorough: F4 three threads x three steps (1680 interleavings) x 336 mode assignments. Threads without an Exit step stay alive until the whole schedule has been executed, so thread termination never happens at an uncontrolled moment. Each schedule is executed on fresh OS threads; every Get/Op observation is compared with a per-thread reference model (map thread -> mode, initially RoundHalfEven). An Op observation is a 14-entry probe vector whose value identifies the mode the arithmetic really used. evaluations = schedules executed; states = distinct (family, program counters, model modes).".into(),
        exhaustive: true,
        assumptions: vec![
            "thread termination is a scheduling event (Step::Exit, performed and joined by the controller); all other threads outlive the schedule".into(),
            "scheduling points are whole public API calls (there is no lock or atomic inside the library to intercept); instruction-level races inside one call are out of scope (DESIGN §6)".into(),
            "real OS threads are used because loom/shuttle run model threads as coroutines on one OS thread, which would share std's thread_local by construction".into(),
        ],
        class_name: &class_name,
        required,
        replay: &replay,
    })
}
