//! Keeping the model honest (DESIGN §3.4): dump (case, model answer) records
//! for every reference-model function; oracle_py/validate.py recomputes them
//! with Python's fractions / decimal / float and int. A disagreement is a
//! machinery failure, never a verdict about /repo.

use crate::alpha::{self, Level};
use crate::big::I512;
use crate::spec::*;
use crate::{c06, c07, c09, c11, c12, c13, model};
use serde_json::json;
use std::io::Write;

fn ex(e: &Expect) -> serde_json::Value {
    match e {
        Expect::Exact(c, s) => json!({"k": "exact", "c": c.to_string(), "s": s}),
        Expect::Value { c, s, max_scale } => json!({"k": "value", "c": c.to_dec_string(), "s": s, "max_scale": max_scale}),
        Expect::Fail => json!({"k": "fail"}),
        Expect::Either(i) => json!({"k": "either", "inner": ex(i)}),
    }
}

pub fn dump(path: &str) -> std::io::Result<u64> {
    let mut f = std::io::BufWriter::new(std::fs::File::create(path)?);
    let mut n = 0u64;
    let mut w = |v: serde_json::Value| -> std::io::Result<()> { n += 1; writeln!(f, "{}", v) };
    // 1. rounding model on a complete small domain and on large structured operands
    for (mi, &mode) in ALL_MODES.iter().enumerate() {
        for num in -500i128..=500 { for den in 1i128..=20 {
            let r = round_div(&I512::from_i128(num), &I512::from_i128(den).mag, mode);
            w(json!({"f": "round_div", "num": num.to_string(), "den": den.to_string(), "mode": mode_py(mode), "q": r.value.to_dec_string()}))?;
        }}
        let k = alpha::coeffs_small(Level::Quick);
        for (i, &a) in k.iter().enumerate() { for (j, &b) in k.iter().enumerate() {
            if b <= 0 || (i * 7 + j * 3 + mi) % 11 != 0 { continue; }
            let r = round_div(&I512::from_i128(a).mul_pow10(18), &I512::from_i128(b).mag, mode);
            w(json!({"f": "round_div", "num": I512::from_i128(a).mul_pow10(18).to_dec_string(), "den": b.to_string(), "mode": mode_py(mode), "q": r.value.to_dec_string()}))?;
        }}
    }
    // 2. operation models on a stratified operand set
    let k = alpha::coeffs_small(Level::Quick);
    let mut cnt = 0usize;
    for (i, &a) in k.iter().enumerate() { for (j, &b) in k.iter().enumerate() {
        for &(p, q) in &[(0u8, 0u8), (2, 0), (0, 3), (18, 18), (9, 10), (18, 1), (1, 18), (5, 5)] {
            cnt += 1;
            if (i * 13 + j * 5 + p as usize + q as usize) % 9 != 0 { continue; }
            let mode = ALL_MODES[cnt % 8];
            for sub in [false, true] { let (e, _) = model::add_sub(a, p, b, q, sub); w(json!({"f": "add_sub", "a": a.to_string(), "p": p, "b": b.to_string(), "q": q, "sub": sub, "exp": ex(&e)}))?; }
            let (e, _, _) = model::mul(a, p, b, q, mode); w(json!({"f": "mul", "a": a.to_string(), "p": p, "b": b.to_string(), "q": q, "mode": mode_py(mode), "exp": ex(&e)}))?;
            let (e, _) = model::div(a, p, b, q, mode); w(json!({"f": "div", "a": a.to_string(), "p": p, "b": b.to_string(), "q": q, "mode": mode_py(mode), "exp": ex(&e)}))?;
            let (e, _) = model::rem(a, p, b, q); w(json!({"f": "rem", "a": a.to_string(), "p": p, "b": b.to_string(), "q": q, "exp": ex(&e)}))?;
            for n in [0u8, 1, 17, 18] {
                let (e, _) = model::div_rounded(a, p, b, q, n, mode); w(json!({"f": "div_rounded", "a": a.to_string(), "p": p, "b": b.to_string(), "q": q, "n": n, "mode": mode_py(mode), "exp": ex(&e)}))?;
                let (e, _) = model::mul_rounded(a, p, b, q, n, mode); w(json!({"f": "mul_rounded", "a": a.to_string(), "p": p, "b": b.to_string(), "q": q, "n": n, "mode": mode_py(mode), "exp": ex(&e)}))?;
            }
            let (e, _) = model::quantize(a, p, b, q, mode); w(json!({"f": "quantize", "a": a.to_string(), "p": p, "b": b.to_string(), "q": q, "mode": mode_py(mode), "exp": ex(&e)}))?;
        }
    }}
    for (i, &a) in k.iter().enumerate() { for p in [0u8, 1, 9, 18] { for n in [-40i8, -38, -20, -3, -1, 0, 1, 8, 17, 18, 30] {
        let mode = ALL_MODES[(i + p as usize) % 8];
        let (e, _) = model::round(a, p, n, mode);
        w(json!({"f": "round", "a": a.to_string(), "p": p, "n": n, "mode": mode_py(mode), "exp": ex(&e)}))?;
    }}}
    // 3. parser model
    let mut strs: Vec<String> = Vec::new();
    for a in c06::SIGMA { for b in c06::SIGMA { for c in c06::SIGMA { for d in c06::SIGMA { strs.push(format!("{}{}{}{}", a, b, c, d)); } } } }
    for s in ["", "0", "-0.0", "1e5", "1E-5", "+.5", "1.", "170141183460469231731687303715884105727", "170141183460469231731687303715884105728", "-170141183460469231731687303715884105727e0",
        "440282366920938463463374607431768211456", "1.5000000000000000000", "0.0000000000000000000", "0e50", ".0e50", "1e38", "2e38", "17e37", "18e37", "0.000000000000000000000000000000000000001e21",
        "123456789012345678.123456789012345678", "123456789012345678.1234567890123456789", "1e-18", "1e-19", "00012.3400e-2", "12345678901234567890123456789012345678901234567890", "1e005", "1e+", "9.99e0000000000000000002"] { strs.push(s.to_string()); }
    for s in &strs {
        let cl = c06::classify(s);
        let want = match &cl.want { c06::Want::ErrEmpty => json!({"k": "empty"}), c06::Want::Err => json!({"k": "err"}), c06::Want::Ok(c, sc) => json!({"k": "ok", "c": c.to_string(), "s": sc}), c06::Want::OkValueOrErr(c, sc) => json!({"k": "ok_or_err", "c": c.to_dec_string(), "s": sc}) };
        w(json!({"f": "parse", "s": s, "want": want}))?;
    }
    // 4. canonical text, ratio, float conversions, display body
    let kk = alpha::coeffs(1, 20, Level::Quick);
    for (i, &a) in kk.iter().enumerate() { for f in [0u8, 1, 5, 17, 18] {
        if (i + f as usize) % 3 != 0 { continue; }
        w(json!({"f": "canonical", "a": a.to_string(), "s": f, "text": c07::canonical(a, f)}))?;
        let (nu, de) = c09::model_ratio(a, f);
        w(json!({"f": "ratio", "a": a.to_string(), "s": f, "n": nu.to_string(), "d": de.to_string()}))?;
        let r64 = c12::round_to_float(a.unsigned_abs(), f, 53);
        let r32 = c12::round_to_float(a.unsigned_abs(), f, 24);
        w(json!({"f": "to_float", "a": a.to_string(), "s": f, "f64_bits": c12::f64_bits(a < 0, r64).to_string(), "f32_bits": c12::f32_bits(a < 0, r32).to_string()}))?;
        for prec in [0usize, 1, 9, 18, 25] {
            let mode = ALL_MODES[(i + prec) % 8];
            let (b, _) = c11::body(a, f, Some(prec), mode);
            w(json!({"f": "display_body", "a": a.to_string(), "s": f, "prec": prec, "mode": mode_py(mode), "body": b}))?;
        }
    }}
    // 5. float -> Decimal model
    let mut bits: Vec<u64> = Vec::new();
    for be in (0..2047u64).step_by(7).chain([0u64, 1, 1022, 1023, 1024, 1075, 1086, 1149, 1150, 1151, 2046]) { for fr in [0u64, 1, (1 << 52) - 1, 0x5555555555555, 1 << 51, 0x8000000000001] { for s in [0u64, 1] { bits.push((s << 63) | (be << 52) | fr); } } }
    for t in (1..4000u64).step_by(2) { let v = (t as f64) * 2f64.powi(-19); bits.push(v.to_bits()); bits.push(v.to_bits() + 1); bits.push(v.to_bits() - 1); }
    for b in bits {
        let f = f64::from_bits(b);
        let (neg, m, e, nan, inf) = { let neg = b >> 63 == 1; let be = ((b >> 52) & 0x7ff) as i32; let fr = b & ((1u64 << 52) - 1); if be == 0x7ff { (neg, 0, 0, fr != 0, fr == 0) } else if be == 0 { (neg, fr, -1074, false, false) } else { (neg, fr | (1u64 << 52), be - 1075, false, false) } };
        let (want, _) = c13::model(neg, m, e, nan, inf);
        let wj = match want { c13::Want::Nan => json!({"k": "nan"}), c13::Want::Inf => json!({"k": "inf"}), c13::Want::Overflow => json!({"k": "overflow"}), c13::Want::MinEdge => json!({"k": "minedge"}), c13::Want::Val(c, s) => json!({"k": "val", "c": c.to_string(), "s": s}) };
        w(json!({"f": "from_float", "bits": b.to_string(), "repr": format!("{:e}", f), "want": wj}))?;
    }
    drop(w);
    f.flush()?;
    Ok(n)
}
