//! C03: division yields the quotient correctly rounded to 18 fractional digits.

use crate::alpha::{self, Level};
use crate::c05::failure_kind;
use crate::model::{self, DivPath};
use crate::pairs::{self, Stages};
use crate::runner::*;
use crate::spec::*;
use crate::{with_form, with_int};
use fpdec::{CheckedDiv, RoundingMode};
use serde_json::{json, Value};

// class: kind(2) | mode(3) | sx(1) | sy(1) | rem(2) | last(4) | path(2) | special(2: 0 general,1 zero divisor,2 zero dividend,3 divisor one) | fails(1)
fn code(kind: u64, mode: usize, sx: bool, sy: bool, rc: RemClass, last: u8, path: DivPath, special: u64, fails: bool) -> u64 {
    (kind << 16) | ((mode as u64) << 13) | ((sx as u64) << 12) | ((sy as u64) << 11) | ((rc as u64) << 9) | ((last as u64) << 5) | ((path as u64) << 3) | (special << 1) | fails as u64
}

pub fn path_name(p: DivPath) -> &'static str {
    match p { DivPath::Equal => "equal scale", DivPath::NarrowShift => "scaled dividend within i128", DivPath::WideShift => "scaled dividend beyond i128", DivPath::DivisorSide => "divisor side larger (p>n+q)" }
}

fn class_name(c: u64) -> String {
    let kind = ["Decimal/Decimal", "Decimal/int", "int/Decimal", "?"][(c >> 16) as usize & 3];
    let special = (c >> 1) & 3;
    if special != 0 {
        return format!("{}/{}", kind, ["", "zero divisor", "zero dividend", "divisor one"][special as usize]);
    }
    let path = [DivPath::Equal, DivPath::NarrowShift, DivPath::WideShift, DivPath::DivisorSide][((c >> 3) & 3) as usize];
    format!("{}/{}/{}/x{}y{}/last={}/{}/{}", kind, path_name(path), mode_name(ALL_MODES[((c >> 13) & 7) as usize]),
        if (c >> 12) & 1 == 1 { "-" } else { "+" }, if (c >> 11) & 1 == 1 { "-" } else { "+" }, (c >> 5) & 15,
        ["exact", "below-half", "tie", "above-half"][((c >> 9) & 3) as usize], if c & 1 == 1 { "overflow" } else { "value" })
}

fn check(l: &mut Local, what: &str, pathname: &str, exp: &Expect, got: Out, fail: Out, mk: &dyn Fn() -> Value) {
    l.evals += 1;
    l.outcome(fnv(got.show().as_bytes()));
    if !accepts(exp, &got, &fail) {
        let kind = failure_kind(exp, &got, &fail);
        l.violation(format!("{} | {} | {}", what, pathname, kind), || {
            (format!("{} model={} impl={} case={}", what, show_expect(exp), got.show(), mk()), mk())
        });
    }
}

fn classify(kind: u64, a: i128, b: i128, q: u8, mode: RoundingMode, exp: &Expect, info: &Option<(DivPath, model::RoundInfo)>) -> (u64, &'static str) {
    match info {
        Some((path, i)) => (
            code(kind, mode_idx(mode), a < 0, b < 0, i.rem_class, i.last_digit, *path, 0, matches!(exp, Expect::Fail)),
            path_name(*path),
        ),
        None => {
            let special = if b == 0 { 1 } else if a == 0 { 2 } else { 3 };
            let _ = q;
            (code(kind, 0, false, false, RemClass::Exact, 0, DivPath::Equal, special, false), ["", "zero divisor", "zero dividend", "divisor one"][special as usize])
        }
    }
}

fn dd_case(a: i128, p: u8, b: i128, q: u8, mode: RoundingMode, all_forms: bool, l: &mut Local) {
    let (x, y) = (dec(a, p), dec(b, q));
    let mk = || json!({"k":"dd","a":a.to_string(),"p":p,"b":b.to_string(),"q":q,"mode":mode_name(mode)});
    let (exp, info) = model::div(a, p, b, q, mode);
    let (c, pathname) = classify(0, a, b, q, mode, &exp, &info);
    if l.class(c) { l.sample(c, json!({"op":"div","x":[a.to_string(),p],"y":[b.to_string(),q],"mode":mode_name(mode),"model":show_expect(&exp)})); }
    if info.is_some() { l.distinct += 1; }
    let nforms = if all_forms { 4 } else { 1 };
    for form in 0..nforms {
        check(l, "Decimal/Decimal", pathname, &exp, with_form!(form, x, y, |u, v| out_op(|| u / v)), Out::Panic, &mk);
        check(l, "Decimal.checked_div(Decimal)", pathname, &exp, with_form!(form, x, y, |u, v| out_checked(|| CheckedDiv::checked_div(u, v))), Out::None, &mk);
    }
    if all_forms {
        check(l, "Decimal/=Decimal", pathname, &exp, out_op(|| { let mut z = x; z /= y; z }), Out::Panic, &mk);
    }
}

fn di_case(a: i128, p: u8, t: usize, v: i128, mode: RoundingMode, all_forms: bool, l: &mut Local) {
    let x = dec(a, p);
    let tn = alpha::INT_TYPES[t];
    let mk = || json!({"k":"di","a":a.to_string(),"p":p,"t":t,"v":v.to_string(),"mode":mode_name(mode)});
    // Decimal / int
    let (mut exp, info) = model::div(a, p, v, 0, mode);
    // int / Decimal
    let (mut exp2, info2) = model::div(v, 0, a, p, mode);
    let min_operand = v == i128::MIN;
    if min_operand {
        // -2^127 as operand lies outside Decimal::MIN..=MAX: the right value or any
        // failure signal (None or panic, also from the checked form) is accepted
        exp = Expect::Either(Box::new(exp));
        exp2 = Expect::Either(Box::new(exp2));
    }
    let (c, pathname) = classify(1, a, v, 0, mode, &exp, &info);
    if l.class(c) { l.sample(c, json!({"op":"div","x":[a.to_string(),p],"int":v.to_string(),"type":tn,"mode":mode_name(mode),"model":show_expect(&exp)})); }
    let (c2, pathname2) = classify(2, v, a, p, mode, &exp2, &info2);
    if l.class(c2) { l.sample(c2, json!({"op":"div","int":v.to_string(),"type":tn,"y":[a.to_string(),p],"mode":mode_name(mode),"model":show_expect(&exp2)})); }
    l.distinct += 2;
    let nforms = if all_forms { 4 } else { 1 };
    for form in 0..nforms {
        with_int!(t, v, i => {
            check(l, &format!("Decimal/{}", tn), pathname, &exp, with_form!(form, x, i, |u, w| out_op(|| u / w)), Out::Panic, &mk);
            let g = with_form!(form, x, i, |u, w| out_checked(|| CheckedDiv::checked_div(u, w)));
            let f = if min_operand && g == Out::Panic { Out::Panic } else { Out::None };
            check(l, &format!("Decimal.checked_div({})", tn), pathname, &exp, g, f, &mk);
            check(l, &format!("{}/Decimal", tn), pathname2, &exp2, with_form!(form, i, x, |u, w| out_op(|| u / w)), Out::Panic, &mk);
            let g = with_form!(form, i, x, |u, w| out_checked(|| CheckedDiv::checked_div(u, w)));
            let f = if min_operand && g == Out::Panic { Out::Panic } else { Out::None };
            check(l, &format!("{}.checked_div(Decimal)", tn), pathname2, &exp2, g, f, &mk);
        });
    }
    if all_forms {
        with_int!(t, v, i => {
            check(l, &format!("Decimal/={}", tn), pathname, &exp, out_op(|| { let mut z = x; z /= i; z }), Out::Panic, &mk);
        });
    }
}

pub fn replay(w: &Value) -> Vec<(String, String)> {
    let run = Run::new("C03", Tier::Quick);
    let prev = RoundingMode::default();
    let mode = match w["mode"].as_str().and_then(mode_from_name) { Some(m) => m, None => return vec![] };
    RoundingMode::set_default(mode);
    run.seq(|l| match w["k"].as_str().unwrap_or("") {
        "seq" => crate::seq::replay_case(w, l),
        "dd" => dd_case(w["a"].as_str().unwrap().parse().unwrap(), w["p"].as_u64().unwrap() as u8,
            w["b"].as_str().unwrap().parse().unwrap(), w["q"].as_u64().unwrap() as u8, mode, true, l),
        "di" => di_case(w["a"].as_str().unwrap().parse().unwrap(), w["p"].as_u64().unwrap() as u8,
            w["t"].as_u64().unwrap() as usize, w["v"].as_str().unwrap().parse().unwrap(), mode, true, l),
        _ => {}
    });
    RoundingMode::set_default(prev);
    run.violations().into_iter().map(|(s, r)| (s, r.detail)).collect()
}

pub fn run(tier: Tier) -> i32 {
    let run = Run::new("C03", tier);
    let lv = if tier.thorough() { Level::Thorough } else { Level::Quick };
    let big = alpha::coeffs(1, 20, if tier.thorough() { Level::Mid } else { Level::Quick });
    let st = Stages::new(if tier.thorough() { 60 } else { 24 }, lv, big);
    let noskip = |_: i128, _: u8, _: i128, _: u8| false;
    let qs = pairs::quotients(lv);
    let divs = pairs::divisors(lv);

    // S1
    let s1 = st.outers_s1();
    let n = st.s1_n;
    pairs::run_pairs(&run, &s1, &ALL_MODES, &|_, _, _, out| out.extend(-n..=n), &noskip, &|a, p, b, q, m, l| dd_case(a, p, b, q, m, true, l));
    run.stage("S1 small scope", json!({"|a|,|b|<=":n,"scale_pairs":361,"modes":8}));

    // S2a: reduced alphabet squared x 361 pairs
    let s2a = st.outers_small();
    pairs::run_pairs(&run, &s2a, &ALL_MODES, &|_, _, _, out| out.extend_from_slice(&st.small), &|a, _, b, _| st.in_s1(a, b), &|a, p, b, q, m, l| dd_case(a, p, b, q, m, false, l));
    run.stage("S2a reduced alphabet x 361 scale pairs", json!({"alphabet":st.small.len()}));

    // S2b: large x reduced, both orders, frame
    // quick: every other (coefficient, scale pair) key of the large alphabet
    let s2b: Vec<pairs::Outer> = if tier.thorough() { st.outers_big() } else { st.outers_big().into_iter().enumerate().filter(|(i, _)| i % 3 == 0).map(|(_, o)| o).collect() };
    pairs::run_pairs(&run, &s2b, &ALL_MODES, &|_, _, _, out| out.extend_from_slice(&st.small),
        &|a, _, b, _| st.in_s1(a, b) || st.in_small(a, b), &|a, p, b, q, m, l| {
        dd_case(a, p, b, q, m, false, l);
        dd_case(b, q, a, p, m, false, l);
    });
    run.stage("S2b large alphabet x reduced alphabet x scale frame, both orders", json!({"large":st.big.len(),"reduced":st.small.len(),"outer_keys":s2b.len(),"thinning": if tier.thorough() { "none" } else { "every 3rd (coefficient, scale pair) key" }}));
    if tier.thorough() {
        pairs::run_pairs(&run, &s2b, &ALL_MODES, &|_, _, _, out| out.extend_from_slice(&st.big),
            &|a, _, b, _| st.in_s1(a, b) || st.small_set.contains(&a) || st.small_set.contains(&b), &|a, p, b, q, m, l| dd_case(a, p, b, q, m, false, l));
        run.stage("S2c large alphabet squared x scale frame", json!({"large":st.big.len()}));
    }

    // S3: rounding frontier: divisor alphabet x signs x scale pairs, dividends solved from (Q, boundary)
    let pairs_s3: &Vec<(u8, u8)> = if tier.thorough() { &st.all } else { &st.frame };
    let mut s3: Vec<pairs::Outer> = Vec::new();
    for &b in &divs { for sgn in [1i128, -1] { for &(p, q) in pairs_s3 { s3.push((sgn * b, p, q)); } } }
    pairs::run_pairs(&run, &s3, &ALL_MODES, &|b, p, q, out| {
        pairs::frontier_div_round(b, (18 + q - p.min(18 + q)) as u32, 0, &qs, out);
    }, &|a, _, b, _| st.in_s1(a, b) || st.in_small(a, b), &|a, p, b, q, m, l| dd_case(a, p, b, q, m, false, l));
    run.stage("S3 rounding frontier", json!({"divisors":divs.len(),"quotients":qs.len(),"scale_pairs":pairs_s3.len(),
        "boundaries":"integer boundary Q*|b| and half boundary Q*|b|+|b|/2, dividend floor(boundary/10^s)+{-1,0,1,2}, both signs; includes exact ties (divisors 2*10^k*c) and quotients M-2..M (quot+1 overflow)"}));

    // integer operands, both positions
    let mut items: Vec<(usize, i128, u8)> = Vec::new();
    for t in 0..9 { for v in alpha::int_values(t, Level::Quick, &[3, 7, -7, 64, 250, 65535, 999_999_999]) { for p in 0..=18u8 { items.push((t, v, p)); } } }
    for mode in ALL_MODES {
        run.par_for(&items, || RoundingMode::set_default(mode), |&(t, v, p), l| {
            let mut xs: Vec<i128> = st.small.clone();
            // Decimal(a,p) / v : up = 18 - p ... frontier solved for the dividend
            pairs::frontier_div_round(v, (18 - p.min(18)) as u32, 0, &qs[..qs.len().min(40)], &mut xs);
            xs.retain(|x| *x != i128::MIN);
            xs.sort(); xs.dedup();
            for a in xs { di_case(a, p, t, v, mode, mode_idx(mode) == 5, l); }
        });
    }
    run.stage("integer operands", json!({"types":9,"operand_tuples":items.len(),"modes":8}));

    // sequence exploration: chained operations from a seed set, results fed back as operands
    {
        let (d, cap) = if tier.thorough() { (3, 12000) } else { (2, 3000) };
        let modes: Vec<RoundingMode> = if tier.thorough() { ALL_MODES.to_vec() } else { vec![ALL_MODES[5], ALL_MODES[3], ALL_MODES[0]] };
        let (st, tr) = crate::seq::explore(&run, &[crate::seq::SOp::Div], d, cap, &modes);
        run.stage("sequence exploration (breadth-first over reachable Decimals)", json!({"depth": d, "states": st, "transitions": tr, "modes": modes.len()}));
        run.set_extra("sequence_exploration", json!({"depth": d, "states": st, "transitions": tr, "seeds": crate::seq::seeds().len(), "state_cap_per_level": cap}));
    }

    let mut required: Vec<Vec<u64>> = Vec::new();
    for m in 0..8 { for path in [DivPath::Equal, DivPath::NarrowShift, DivPath::WideShift] { for rc in [RemClass::Exact, RemClass::BelowHalf, RemClass::Tie, RemClass::AboveHalf] {
        for (sx, sy) in [(false, false), (false, true), (true, false), (true, true)] {
            for lastset in [vec![0u8, 5], vec![1, 3, 7, 9], vec![2, 4, 6, 8]] {
                required.push(lastset.iter().map(|&ld| code(0, m, sx, sy, rc, ld, path, 0, false)).collect());
            }
        }
    }}
        // quotient overflow
        let mut g = Vec::new();
        for path in [DivPath::Equal, DivPath::NarrowShift, DivPath::WideShift] { for rc in [RemClass::Exact, RemClass::BelowHalf, RemClass::Tie, RemClass::AboveHalf] { for ld in 0..10u8 { for s in 0..4 {
            g.push(code(0, m, s & 1 == 1, s & 2 == 2, rc, ld, path, 0, true));
        }}}}
        required.push(g);
    }
    for special in 1..=3u64 { for kind in 0..3u64 { required.push(vec![code(kind, 0, false, false, RemClass::Exact, 0, DivPath::Equal, special, false)]); } }
    for kind in [1u64, 2] { for m in 0..8 { for rc in [RemClass::Exact, RemClass::BelowHalf, RemClass::Tie, RemClass::AboveHalf] {
        let mut g = Vec::new();
        for path in [DivPath::Equal, DivPath::NarrowShift, DivPath::WideShift] { for ld in 0..10u8 { for s in 0..4 { g.push(code(kind, m, s & 1 == 1, s & 2 == 2, rc, ld, path, 0, false)); } } }
        required.push(g);
    }}}

    finish(Finish {
        run: &run,
        level: "model_checking",
        rule: "Complete enumeration of (dividend, divisor, thread-default mode): S1 all |a|,|b|<=N x 361 scale pairs x 8 modes; S2 boundary alphabets crossed (reduced squared x 361 pairs; large x reduced x frame in both orders; thorough: large squared); S3 rounding frontier: for every divisor of the divisor alphabet (small primes, powers of two to 2^126, 10^k and k*10^k, limb shapes that stress the quotient-digit estimate, M), both signs, every scale pair of the frame (thorough: all 361), every quotient Q of the quotient alphabet, the dividends next to the integer boundary Q*|b| and the half boundary; integer operands of all 9 types in both positions. distinct_nontrivial counts distinct (tuple, mode) that reach the rounding kernel (no zero/one shortcut).".into(),
        exhaustive: true,
        assumptions: vec![
            "reference model: round(a*10^(18+q) / (b*10^p)) in 512-bit arithmetic, trailing zeros stripped".into(),
            "divisor one: dividend's value in its own or the stripped representation; -2^127 accepted either way".into(),
        ],
        class_name: &class_name,
        required,
        replay: &replay,
    })
}
