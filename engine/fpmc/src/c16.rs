//! C16: results stay correct when intermediates exceed 128 bits.
//! The four #[doc(hidden)] pub kernels are driven directly with constructed
//! 256-bit dividends; the oracle is a certificate checked by multiplication.

use crate::alpha;
use crate::with_int;
use crate::big::{I512, U512};
use crate::pairs;
use crate::runner::*;
use crate::spec::*;
use crate::c05::failure_kind;
use crate::model::{self, DivPath};
use fpdec::{CheckedDiv, DivRounded, MulRounded, RoundingMode};
use fpdec_core::{i128_shifted_div_mod_floor, i256_div_mod_floor, verif_cov};
#[cfg(feature = "hidden-rounded")]
use fpdec_core::{i128_mul_div_ten_pow_rounded, i128_shifted_div_rounded};
use serde_json::{json, Value};

// class: fn(2) | sign(2) | rem(2: 0 zero, 1 nonzero) | qclass(2: fits, at-limit, overflow) | wide(1) | divisor class(2: <2^64, >=2^64 xh<y, xh>=y)
fn code(f: u64, sa: bool, sb: bool, rem_zero: bool, qclass: u64, wide: bool, dclass: u64) -> u64 {
    (f << 9) | ((sa as u64) << 8) | ((sb as u64) << 7) | ((rem_zero as u64) << 6) | (qclass << 4) | ((wide as u64) << 3) | dclass
}

fn class_name(c: u64) -> String {
    let f = ["i256_div_mod_floor", "i128_shifted_div_mod_floor", "i128_mul_div_ten_pow_rounded", "i128_shifted_div_rounded"][(c >> 9) as usize & 3];
    format!("{}/{}{}/{}/{}/{}/{}", f, if (c >> 8) & 1 == 1 { "-" } else { "+" }, if (c >> 7) & 1 == 1 { "-" } else { "+" },
        if (c >> 6) & 1 == 1 { "exact" } else { "inexact" }, ["q fits", "|q| at 2^127-1", "q overflows", "?"][((c >> 4) & 3) as usize],
        if (c >> 3) & 1 == 1 { "dividend>128 bits" } else { "dividend<=128 bits" },
        ["divisor<2^64", "divisor>=2^64, high word<divisor", "divisor>=2^64, high word>=divisor", "?"][(c & 3) as usize])
}

struct Floor {
    q: I512,
    r: I512,
}

/// floor division of n by positive m in the model.
fn floor_model(n: &I512, m: &U512) -> Floor {
    let q = pairs::floor_div(n, m);
    let r = n.sub(&q.mul(&I512::new(false, *m)));
    assert!(!r.neg && r.mag < *m);
    Floor { q, r }
}

fn dclass(n: &I512, m: u128) -> u64 {
    if m >> 64 == 0 { 0 } else {
        let hi = n.mag.shr(128);
        if hi < U512::from_u128(m) { 1 } else { 2 }
    }
}

fn qclass(q: &I512) -> u64 {
    match q.to_i128() { None => 2, Some(v) if v == M || v == -M || v == i128::MIN => 1, _ => 0 }
}

/// f = 0: i256_div_mod_floor(a, b, m); f = 1: i128_shifted_div_mod_floor(a, k, m)
fn floor_case(f: u64, a: i128, b: i128, k: u8, m: i128, l: &mut Local) {
    debug_assert!(m > 0);
    let n = if f == 0 { I512::from_i128(a).mul(&I512::from_i128(b)) } else { I512::from_i128(a).mul_pow10(k as u32) };
    let mm = U512::from_u128(m as u128);
    let fl = floor_model(&n, &mm);
    let got = catch(|| if f == 0 { i256_div_mod_floor(a, b, m) } else { i128_shifted_div_mod_floor(a, k, m) });
    l.evals += 1;
    l.distinct += 1;
    let wide = !n.mag.fits_u128();
    let c = code(f, a < 0, if f == 0 { b < 0 } else { false }, fl.r.is_zero(), qclass(&fl.q), wide, dclass(&n, m as u128));
    if l.class(c) {
        l.sample(c, json!({"fn": if f == 0 {"i256_div_mod_floor"} else {"i128_shifted_div_mod_floor"}, "a":a.to_string(), "b_or_k": if f == 0 { b.to_string() } else { k.to_string() }, "m":m.to_string(), "q":fl.q.to_dec_string(), "r":fl.r.to_dec_string()}));
    }
    let fname = if f == 0 { "i256_div_mod_floor" } else { "i128_shifted_div_mod_floor" };
    let pathn = format!("{}{}", if wide { "dividend>128 bits" } else { "dividend<=128 bits" }, if fl.r.is_zero() { ", exact" } else { "" });
    let mk = || json!({"k":"floor","f":f,"a":a.to_string(),"b":b.to_string(),"kk":k,"m":m.to_string()});
    let bad = |l: &mut Local, kind: &str, gs: String| {
        l.violation(format!("{} | {} | {}", fname, pathn, kind), || (format!("{} model q={} r={} impl={} case={}", fname, fl.q.to_dec_string(), fl.r.to_dec_string(), gs, mk()), mk()));
    };
    match got {
        Err(()) => bad(l, "panicked", "Panic".into()),
        Ok(None) => {
            // None iff the floor quotient is outside i128 (-2^127 itself: either)
            if fl.q.to_i128().is_some() && fl.q.to_i128() != Some(i128::MIN) {
                bad(l, "unexpected-None", "None".into());
            }
        }
        Ok(Some((q, r))) => {
            l.outcome(hash_i128s(&[q, r]));
            // certificate: n = q*m + r, 0 <= r < m
            let ok = I512::from_i128(q).mul(&I512::from_i128(m)).add(&I512::from_i128(r)) == n && r >= 0 && r < m;
            if !ok {
                bad(l, "certificate a*b=q*m+r, 0<=r<m fails", format!("Some(({},{}))", q, r));
            }
        }
    }
}

/// f = 2: i128_mul_div_ten_pow_rounded(a, b, k, mode); f = 3: i128_shifted_div_rounded(a, k, m, mode)
fn rounded_case(f: u64, a: i128, b: i128, k: u8, m: i128, mode: RoundingMode, via_default: bool, l: &mut Local) {
    let (n, den) = if f == 2 {
        (I512::from_i128(a).mul(&I512::from_i128(b)), I512::from_i128(alpha::pow10(k as u32)))
    } else {
        (I512::from_i128(a).mul_pow10(k as u32), I512::from_i128(m))
    };
    let (n, den) = if den.neg { (n.neg(), den.abs()) } else { (n, den) };
    let r = round_div(&n, &den.mag, mode);
    #[cfg(feature = "hidden-rounded")]
    let got = { let md = if via_default { None } else { Some(mode) }; catch(|| if f == 2 { i128_mul_div_ten_pow_rounded(a, b, k, md) } else { i128_shifted_div_rounded(a, k, m, md) }) };
    // engine built without feature hidden-rounded (the rounded kernels changed their signature): the same
    // quotient through the public API under the thread's mode (every caller has set it to `mode`):
    // round(a*b / 10^k) = (a, s1).mul_rounded((b, s2), 0) and round(a*10^k / m) = (a, 0).div_rounded((m, s1), s2)
    // with s1 + s2 = k, which exists for k <= 36; a panic is the overflow signal
    #[cfg(not(feature = "hidden-rounded"))]
    let got: Result<Option<i128>, ()> = {
        let _ = via_default;
        if k > 36 { return; }
        let (s1, s2) = (k.min(18), k - k.min(18));
        Ok(catch(|| if f == 2 { fpdec::Decimal::new_raw(a, s1).mul_rounded(fpdec::Decimal::new_raw(b, s2), 0).coefficient() } else { fpdec::Decimal::new_raw(a, 0).div_rounded(fpdec::Decimal::new_raw(m, s1), s2).coefficient() }).ok())
    };
    l.evals += 1;
    l.distinct += 1;
    let wide = !n.mag.fits_u128();
    let dm = den.mag.low_u128();
    let c = code(f, n.neg, false, r.rem_class == RemClass::Exact, qclass(&r.value), wide, dclass(&n, dm)) | ((mode_idx(mode) as u64) << 12) | ((r.rem_class as u64) << 16);
    if l.class(c) {
        l.sample(c, json!({"fn": if f == 2 {"i128_mul_div_ten_pow_rounded"} else {"i128_shifted_div_rounded"}, "a":a.to_string(), "b":b.to_string(), "k":k, "m":m.to_string(), "mode":mode_name(mode), "model":r.value.to_dec_string()}));
    }
    let fname = if f == 2 { "i128_mul_div_ten_pow_rounded" } else { "i128_shifted_div_rounded" };
    let pathn = format!("{}{}", if wide { "dividend>128 bits" } else { "dividend<=128 bits" }, if r.rem_class == RemClass::Exact { ", exact" } else { "" });
    let mk = || json!({"k":"rounded","f":f,"a":a.to_string(),"b":b.to_string(),"kk":k,"m":m.to_string(),"mode":mode_name(mode),"via_default":via_default});
    let want = r.value.to_i128();
    let (ok, gs, kind) = match (&got, want) {
        (Err(()), _) => (false, "Panic".to_string(), "panicked"),
        (Ok(None), None) => (true, String::new(), ""),
        (Ok(None), Some(w)) => (w == i128::MIN, "None".to_string(), "unexpected-None"),
        (Ok(Some(g)), Some(w)) => (*g == w, format!("Some({})", g), "wrong-value"),
        (Ok(Some(g)), None) => (false, format!("Some({})", g), "missing-overflow-signal"),
    };
    if let Ok(Some(g)) = got { l.outcome(hash_i128s(&[g])); }
    if !ok {
        l.violation(format!("{} | {} | {}", fname, pathn, kind), || (format!("{} model={} impl={} case={}", fname, r.value.to_dec_string(), gs, mk()), mk()));
    }
}

// extended class name incl. mode / rem class for the rounded kernels
fn class_name_ext(c: u64) -> String {
    if c >> 20 != 0 {
        return format!("operator level {}/{}/{}/{}/{}", if c >> 20 == 1 { "* and mul_rounded" } else { "/, checked_div, div_rounded" }, mode_name(ALL_MODES[((c >> 12) & 7) as usize]), ["exact", "below-half", "tie", "above-half"][((c >> 16) & 3) as usize], if (c >> 8) & 1 == 1 { "negative" } else { "nonneg" }, if c & 1 == 1 { "overflow" } else { "value" });
    }
    let base = class_name(c & 0xfff);
    if (c >> 9) & 3 >= 2 {
        format!("{}/{}/{}", base, mode_name(ALL_MODES[((c >> 12) & 7) as usize]), ["exact", "below-half", "tie", "above-half"][((c >> 16) & 3) as usize])
    } else { base }
}

/// Operator level: x * y, mul_rounded on operands whose coefficient product exceeds 128 bits.
fn op_mul_case(a: i128, p: u8, b: i128, q: u8, mode: RoundingMode, l: &mut Local) {
    let (x, y) = (dec(a, p), dec(b, q));
    let mk = || json!({"k": "opmul", "a": a.to_string(), "p": p, "b": b.to_string(), "q": q, "mode": mode_name(mode)});
    let (exp, _path, info) = model::mul(a, p, b, q, mode);
    let wide = info.as_ref().map(|i| i.wide).unwrap_or(false);
    if !wide { return; }
    let i = info.unwrap();
    l.distinct += 1;
    let c = (1u64 << 20) | ((mode_idx(mode) as u64) << 12) | ((i.rem_class as u64) << 16) | ((i.negative as u64) << 8) | (matches!(exp, Expect::Fail) as u64);
    if l.class(c) { l.sample(c, json!({"op": "Decimal*Decimal (product beyond i128)", "x": [a.to_string(), p], "y": [b.to_string(), q], "mode": mode_name(mode), "model": show_expect(&exp)})); }
    let mut chk = |name: &str, e: &Expect, got: Out| {
        l.evals += 1;
        if !accepts(e, &got, &Out::Panic) {
            l.violation(format!("{} | product beyond i128{} | {}", name, if i.rem_class == RemClass::Exact { ", exact" } else { "" }, failure_kind(e, &got, &Out::Panic)), || (format!("{} model={} impl={} case={}", name, show_expect(e), got.show(), mk()), mk()));
        }
    };
    chk("Decimal*Decimal", &exp, out_op(|| x * y));
    for n in [0u8, 18, (p + q).saturating_sub(1).min(18)] {
        let (e2, inf2) = model::mul_rounded(a, p, b, q, n, mode);
        if inf2.as_ref().map(|i| i.wide).unwrap_or(false) { chk("Decimal.mul_rounded(Decimal)", &e2, out_op(|| x.mul_rounded(y, n))); }
    }
}

/// Operator level: x / y, checked_div, div_rounded on operands whose scaled dividend exceeds 128 bits.
fn op_div_case(a: i128, p: u8, b: i128, q: u8, mode: RoundingMode, l: &mut Local) {
    let (x, y) = (dec(a, p), dec(b, q));
    let mk = || json!({"k": "opdiv", "a": a.to_string(), "p": p, "b": b.to_string(), "q": q, "mode": mode_name(mode)});
    let (exp, info) = model::div(a, p, b, q, mode);
    let (path, i) = match info { Some(pi) => pi, None => return };
    if path != DivPath::WideShift { return; }
    l.distinct += 1;
    let c = (2u64 << 20) | ((mode_idx(mode) as u64) << 12) | ((i.rem_class as u64) << 16) | ((i.negative as u64) << 8) | (matches!(exp, Expect::Fail) as u64);
    if l.class(c) { l.sample(c, json!({"op": "Decimal/Decimal (scaled dividend beyond i128)", "x": [a.to_string(), p], "y": [b.to_string(), q], "mode": mode_name(mode), "model": show_expect(&exp)})); }
    let exact = if i.rem_class == RemClass::Exact { ", exact" } else { "" };
    let mut chk = |name: &str, e: &Expect, got: Out, fail: Out| {
        l.evals += 1;
        if !accepts(e, &got, &fail) {
            l.violation(format!("{} | scaled dividend beyond i128{} | {}", name, exact, failure_kind(e, &got, &fail)), || (format!("{} model={} impl={} case={}", name, show_expect(e), got.show(), mk()), mk()));
        }
    };
    chk("Decimal/Decimal", &exp, out_op(|| x / y), Out::Panic);
    chk("Decimal.checked_div(Decimal)", &exp, out_checked(|| x.checked_div(y)), Out::None);
    for n in [0u8, 9, 18] {
        let (e2, inf2) = model::div_rounded(a, p, b, q, n, mode);
        if matches!(inf2, Some((DivPath::WideShift, _))) {
            chk("Decimal.div_rounded(Decimal)", &e2, out_op(|| x.div_rounded(y, n)), Out::Panic);
            // the integer-operand forms of the same division (smallest fitting type and i128)
            if q == 0 { for t in int_types_for(b) { with_int!(t, b, i => { chk("Decimal.div_rounded(int)", &e2, out_op(|| x.div_rounded(i, n)), Out::Panic); }); } }
            if p == 0 { for t in int_types_for(a) { with_int!(t, a, i => { chk("int.div_rounded(Decimal)", &e2, out_op(|| i.div_rounded(y, n)), Out::Panic); }); } }
        }
    }
    if q == 0 { for t in int_types_for(b) { with_int!(t, b, i => {
        chk("Decimal/int", &exp, out_op(|| x / i), Out::Panic);
        chk("Decimal/=int", &exp, out_op(|| { let mut z = x; z /= i; z }), Out::Panic);
        chk("Decimal.checked_div(int)", &exp, out_checked(|| CheckedDiv::checked_div(x, i)), Out::None);
    }); } }
    if p == 0 { for t in int_types_for(a) { with_int!(t, a, i => {
        chk("int/Decimal", &exp, out_op(|| i / y), Out::Panic);
        chk("int.checked_div(Decimal)", &exp, out_checked(|| CheckedDiv::checked_div(i, y)), Out::None);
    }); } }
    chk("Decimal/=Decimal", &exp, out_op(|| { let mut z = x; z /= y; z }), Out::Panic);
    chk("&Decimal/&Decimal", &exp, out_op(|| &x / &y), Out::Panic);
}

/// The integer types used for a value in the operator stage: the narrowest type that holds it, and i128.
fn int_types_for(v: i128) -> Vec<usize> {
    let mut out = Vec::new();
    for t in 0..9usize { let (lo, hi) = alpha::int_range(t); if v >= lo && v <= hi { out.push(t); break; } }
    if out.last() != Some(&8) { out.push(8); }
    out
}

pub fn replay(w: &Value) -> Vec<(String, String)> {
    let run = Run::new("C16", Tier::Quick);
    let g = |k: &str| -> i128 { w[k].as_str().unwrap().parse().unwrap() };
    let prev = RoundingMode::default();
    run.seq(|l| match w["k"].as_str().unwrap_or("") {
        "floor" => floor_case(w["f"].as_u64().unwrap(), g("a"), g("b"), w["kk"].as_u64().unwrap() as u8, g("m"), l),
        "opmul" | "opdiv" => {
            let mode = mode_from_name(w["mode"].as_str().unwrap()).unwrap();
            RoundingMode::set_default(mode);
            let (a, p, b, q) = (g("a"), w["p"].as_u64().unwrap() as u8, g("b"), w["q"].as_u64().unwrap() as u8);
            if w["k"] == "opmul" { op_mul_case(a, p, b, q, mode, l) } else { op_div_case(a, p, b, q, mode, l) }
        }
        "rounded" => {
            let mode = mode_from_name(w["mode"].as_str().unwrap()).unwrap();
            RoundingMode::set_default(mode);
            rounded_case(w["f"].as_u64().unwrap(), g("a"), g("b"), w["kk"].as_u64().unwrap() as u8, g("m"), mode, w["via_default"].as_bool().unwrap_or(false), l)
        }
        _ => {}
    });
    RoundingMode::set_default(prev);
    run.violations().into_iter().map(|(s, r)| (s, r.detail)).collect()
}

fn divisor_list(thorough: bool) -> Vec<i128> {
    let mut v: Vec<i128> = vec![1, 2, 3, 5, 7, 10, (1 << 32) - 1, 1 << 32, (1 << 63) - 1, 1 << 63, (1 << 64) - 1, 1 << 64, (1 << 64) + 1, (1 << 65) - 1,
        (1 << 96) + 1, (1i128 << 126) - 1, 1 << 126, (1i128 << 126) + 1, M - 1, M, M / 2, M / 3, M / 3 * 2 + 1];
    for k in 1..=38 { v.push(alpha::pow10(k)); if thorough || k % 3 == 0 { v.push(alpha::pow10(k) - 1); v.push(alpha::pow10(k) + 1); } }
    // normalised-minimal top limb with maximal low limb, and its right shifts (q-hat too large)
    let shape: u128 = (1u128 << 127) | ((1u128 << 64) - 1);
    for sh in 1..=63 { if thorough || sh % 4 == 1 || sh > 60 { v.push((shape >> sh) as i128); } }
    // limb patterns
    let limbs: [u128; 7] = [1, 2, 1 << 62, (1 << 63) - 1, 1 << 63, (1 << 64) - 2, (1 << 64) - 1];
    for &hi in &limbs { for &lo in &[0u128, 1, (1 << 63), (1 << 64) - 1] {
        let x = (hi << 64) | lo;
        if x <= M as u128 && x > 0 { v.push(x as i128); }
    }}
    v.sort(); v.dedup(); v
}

fn quotient_targets(thorough: bool) -> Vec<U512> {
    // limb patterns q1, q0 and the representability limit
    let limbs: Vec<u128> = if thorough { vec![0, 1, 2, 1 << 32, 1 << 63, (1 << 63) + 1, (1 << 64) - 2, (1 << 64) - 1] } else { vec![0, 1, 1 << 63, (1 << 64) - 2, (1 << 64) - 1] };
    let mut v = Vec::new();
    for &q1 in &limbs { for &q0 in &limbs { v.push(U512::from_u128((q1 << 64) | q0)); } }
    for d in 0..3u64 { v.push(U512::from_u128(M as u128 - d as u128)); v.push(U512::from_u128(M as u128 + 1 + d as u128)); }
    v.push(U512::from_u128(u128::MAX));
    v.push(U512::from_u128(u128::MAX).add(&U512::ONE));
    v.sort(); v.dedup(); v
}

pub fn run(tier: Tier) -> i32 {
    let run = Run::new("C16", tier);
    let deep = tier.thorough();
    let th = true; // the constructed families are cheap: both tiers use the full lists
    verif_cov::reset();
    let ms = divisor_list(th);
    let qts = quotient_targets(th);
    let factor_shapes: Vec<i128> = {
        let mut v: Vec<i128> = vec![1, 3, 7, 10, 1 << 20, (1 << 63) - 1, 1 << 63, 1 << 64, (1 << 64) + 1, 1 << 100, (1i128 << 126) + 1, M, M - 1, 999_999_999_999_999_999, alpha::pow10(18), alpha::pow10(19), alpha::pow10(30), alpha::pow10(38),
            123456789012345678901234567890123456789, M / 3, M / 7];
        if th { for j in (5..=125).step_by(5) { v.push(1i128 << j); v.push((1i128 << j) + 1); } for k in 1..=37 { v.push(alpha::pow10(k)); } }
        v.sort(); v.dedup(); v
    };

    // (1) i256_div_mod_floor: a*b = Q*m + R' solved for b, all sign combinations
    run.par_for(&ms, || {}, |&m, l| {
        let mm = U512::from_u128(m as u128);
        for q in &qts {
            let base = q.mul(&mm);
            let rs = [U512::ZERO, U512::ONE, U512::from_u128((m / 2) as u128), U512::from_u128((m - 1) as u128)];
            for r in &rs {
                let target = base.add(r);
                for &a in &factor_shapes {
                    // b = floor(target / a) + {0,1}
                    let (bq, _) = target.divrem(&U512::from_u128(a as u128));
                    for d in [0u64, 1] {
                        if let Some(b) = bq.add(&U512::from_u64(d)).to_u128() {
                            if b <= M as u128 && b > 0 {
                                for (sa, sb) in [(1i128, 1i128), (-1, 1), (1, -1), (-1, -1)] { floor_case(0, sa * a, sb * b as i128, 0, m, l); }
                            }
                        }
                    }
                }
            }
        }
        // exact divisions by construction: a = m*u or a | m
        for &u in &[1i128, 2, 3, 10, 1 << 40, (1 << 62) + 1] {
            if let Some(a) = m.checked_mul(u) {
                for &b in &factor_shapes { for (sa, sb) in [(1i128, 1i128), (-1, 1), (1, -1), (-1, -1)] { floor_case(0, sa * a, sb * b, 0, m, l); floor_case(0, sb * b, sa * a, 0, m, l); } }
            }
        }
    });
    run.stage("i256_div_mod_floor", json!({"divisors":ms.len(),"quotient_targets":qts.len(),"remainders":"0,1,m/2,m-1","factor_shapes":factor_shapes.len(),"signs":4}));

    // (2) i128_shifted_div_mod_floor: a*10^k = Q*m + R, solved for a, all k
    let mk: Vec<(i128, u8)> = ms.iter().flat_map(|&m| (0..=38u8).map(move |k| (m, k))).collect();
    run.par_for(&mk, || {}, |&(m, k), l| {
        let mm = U512::from_u128(m as u128);
        let pk = U512::pow10(k as u32);
        for q in &qts {
            let base = q.mul(&mm);
            for r in [U512::ZERO, U512::ONE, U512::from_u128((m / 2) as u128), U512::from_u128((m - 1) as u128)] {
                let (aq, _) = base.add(&r).divrem(&pk);
                for d in [0u64, 1] {
                    if let Some(a) = aq.add(&U512::from_u64(d)).to_u128() {
                        if a <= M as u128 && a > 0 { floor_case(1, a as i128, 0, k, m, l); floor_case(1, -(a as i128), 0, k, m, l); }
                    }
                }
            }
        }
        // exact: a = m*u / 10^j style and a = m*u
        for &u in &[1i128, 3, 7, 1 << 30, alpha::pow10(9) + 1] {
            if let Some(a) = m.checked_mul(u) { floor_case(1, a, 0, k, m, l); floor_case(1, -a, 0, k, m, l); }
        }
        for &a in &factor_shapes { floor_case(1, a, 0, k, m, l); floor_case(1, -a, 0, k, m, l); }
    });
    run.stage("i128_shifted_div_mod_floor", json!({"divisors":ms.len(),"k":"0..=38","quotient_targets":qts.len()}));

    // (3) rounded kernels on the same constructions, 8 modes (explicit and thread default)
    let qs = pairs::quotients(if deep { alpha::Level::Thorough } else { alpha::Level::Mid });
    let ks: Vec<u8> = (1..=38).collect();
    for mode in ALL_MODES {
        run.par_for(&ks, || RoundingMode::set_default(mode), |&k, l| {
            // i128_mul_div_ten_pow_rounded(a, b, k): a*b near Q*10^k + rho
            let mults: Vec<i128> = vec![3, 7, 11, 101, (1 << 61) - 1, (1 << 64) + 13, 123456789012345678901234567, (1i128 << 100) + 277, (1i128 << 120) + 451, 2, 5, 1 << 40, 5i128.pow(20), alpha::pow10(18), 1 << 126];
            for &b in &mults {
                let mut xs = Vec::new();
                pairs::frontier_mul_round(b, k as u32, &qs, &mut xs);
                xs.sort(); xs.dedup();
                for a in xs { for sb in [1i128, -1] { rounded_case(2, a, sb * b, k, 0, mode, false, l); if a % 7 == 0 { rounded_case(2, a, sb * b, k, 0, mode, true, l); } } }
            }
        });
        run.par_for(&mk, || RoundingMode::set_default(mode), |&(m, k), l| {
            if !deep && (k % 2 != 0 && k != 38 && k != 1) { return; }
            let mut xs = Vec::new();
            pairs::frontier_div_round(m, k as u32, 0, &qs[..qs.len().min(if deep { 400 } else { 48 })], &mut xs);
            xs.sort(); xs.dedup();
            for a in xs { if a == 0 { continue; } for sm in [1i128, -1] { rounded_case(3, a, 0, k, sm * m, mode, false, l); } }
        });
    }
    run.stage("rounded kernels", json!({"modes":8,"k":"1..=38"}));

    // (4) operator level: * / mul_rounded div_rounded checked_div on operands that force the 256-bit paths
    let mults: Vec<i128> = vec![3, 7, 11, 101, (1 << 61) - 1, (1 << 64) + 13, 123456789012345678901234567, (1i128 << 100) + 277, (1i128 << 120) + 451, 2, 5, 1 << 40, 5i128.pow(20), alpha::pow10(18), 1 << 126, M / 3, M];
    let opdivs: Vec<i128> = { let mut v = vec![2i128, 3, 7, 10, 1 << 32, (1 << 64) - 1, 1 << 64, (1 << 64) + 1, (1i128 << 96) + 1, 1 << 126, M / 3, M - 1, M, 999_999_999_999_999_999, alpha::pow10(19), 3 * alpha::pow10(20)];
        let shape: u128 = (1u128 << 127) | ((1u128 << 64) - 1); for sh in [1u32, 2, 17, 33, 62, 63] { v.push((shape >> sh) as i128); } v };
    // quotient targets of the operator stage: the list is sorted, so take BOTH ends (small quotients and the
    // ones next to 10^37, 10^38 and 2^127-1, where a 39-digit result still fits) and a spread of the middle
    let opqs: Vec<i128> = if deep { qs.clone() } else { let n = qs.len(); qs.iter().enumerate().filter(|(i, _)| *i < 24 || *i + 30 >= n || i % 9 == 0).map(|(_, q)| *q).collect() };
    let frame = alpha::scale_frame();
    let mut opitems: Vec<(u8, i128, u8, u8)> = Vec::new();
    for &b in &mults { for sb in [1i128, -1] { for &(p, q) in &frame { if p as u32 + q as u32 > 18 { opitems.push((0, sb * b, p, q)); } } } }
    for &b in &opdivs { for sb in [1i128, -1] { for &(p, q) in &frame { if 18 + q as i32 - p as i32 > 0 { opitems.push((1, sb * b, p, q)); } } } }
    for mode in ALL_MODES {
        run.par_for(&opitems, || RoundingMode::set_default(mode), |&(kind, b, p, q), l| {
            let mut xs = Vec::new();
            if kind == 0 { pairs::frontier_mul_round(b, p as u32 + q as u32 - 18, &opqs, &mut xs); }
            else { pairs::frontier_div_round(b, (18 + q - p) as u32, 0, &opqs, &mut xs); }
            xs.retain(|x| *x != i128::MIN && *x != 0);
            xs.sort(); xs.dedup();
            for a in xs { if kind == 0 { op_mul_case(a, p, b, q, mode, l); } else { op_div_case(a, p, b, q, mode, l); } }
        });
    }
    run.stage("operator level on 256-bit paths", json!({"multipliers": mults.len(), "divisors": opdivs.len(), "scale_pairs": "frame", "modes": 8, "operations": "*, mul_rounded, /, checked_div, div_rounded"}));

    // hook counters: which branches of the multi-word division were reached
    let names = ["idiv_u128: divisor<2^64 (u256_idiv_u64)", "idiv_u128: high word<divisor (special directly)", "idiv_u128: high word>=divisor (two-step)", "idiv_u64: y==1 exit",
        "special: n_bits==0 (divisor>=2^127, unreachable for positive i128)", "special: first digit estimate corrected once", "special: first digit estimate corrected twice", "special: first loop left by rhat>=B",
        "special: second digit estimate corrected once", "special: second digit estimate corrected twice", "special: second loop left by rhat>=B", "special: q1-hat>=B", "special: q0-hat>=B",
        "shifted: x<0,y<0", "shifted: x<0,y>0,r==0", "shifted: x<0,y>0,r!=0", "shifted: x>0,y<0", "i256: signs differ,r==0", "i256: signs differ,r!=0", "quotient overflow -> None"];
    let mut hooks = serde_json::Map::new();
    let mut missing = Vec::new();
    for (i, n) in names.iter().enumerate() {
        let c = verif_cov::get(i);
        hooks.insert(n.to_string(), json!(c));
        if c == 0 && i != 4 && i != 13 && i != 16 { missing.push(n.to_string()); }
    }
    run.set_extra("branch_hits", Value::Object(hooks));
    run.set_extra("branches_not_reached", json!(missing));

    let mut required: Vec<Vec<u64>> = Vec::new();
    for f in 0..2u64 { for sa in [false, true] { for sb in [false, true] { if f == 1 && sb { continue; }
        for rz in [false, true] { for wide in [false, true] {
            required.push((0..3u64).map(|d| code(f, sa, sb, rz, 0, wide, d)).collect());
        }}
        required.push((0..3u64).flat_map(|d| [false, true].into_iter().map(move |rz| code(f, sa, sb, rz, 2, true, d))).collect());
        required.push((0..3u64).flat_map(|d| [false, true].into_iter().flat_map(move |rz| [false, true].into_iter().map(move |w| code(f, sa, sb, rz, 1, w, d)))).collect());
    }}}
    for d in 0..3u64 { for f in 0..2u64 {
        required.push([false, true].into_iter().flat_map(|sa| [false, true].into_iter().flat_map(move |rz| [0u64, 1, 2].into_iter().map(move |qc| code(f, sa, false, rz, qc, true, d)))).collect());
    }}
    for f in 2..4u64 { for m in 0..8u64 { for neg in [false, true] { for rc in 0..4u64 {
        let mut g = Vec::new();
        for d in 0..3u64 { for qc in 0..3u64 { g.push(code(f, neg, false, rc == 0, qc, true, d) | (m << 12) | (rc << 16)); } }
        required.push(g);
    }}}}

    for opk in [1u64, 2] { for m in 0..8u64 { for rc in 0..4u64 { for neg in [0u64, 1] {
        required.push(vec![(opk << 20) | (m << 12) | (rc << 16) | (neg << 8), (opk << 20) | (m << 12) | (rc << 16) | (neg << 8) | 1]);
    }}}}
    let rc = finish(Finish {
        run: &run,
        level: "model_checking",
        rule: "Complete enumeration of constructed (a, b|k, m): for every divisor m of the divisor alphabet (1, 2, 3, 10^k, 10^k+-1, 2^64-1, 2^64, 2^64+1, limb patterns, the normalised-minimal-top-limb/maximal-low-limb shape and its right shifts, 2^127-1), every quotient target Q (limb patterns q1,q0 in {0,1,2^63,2^64-2,2^64-1}, 2^127-1-d, 2^127+d, 2^128-1, 2^128), every remainder target R in {0,1,m/2,m-1}, every factor shape a: b = floor((Q*m+R)/a)+{0,1}, four sign combinations; for the shifted form all k in 0..=38; exact divisions by construction; rounded kernels over the C02-C04 frontier constructions under 8 modes; operator level: *, mul_rounded, /, checked_div, div_rounded on every operand tuple of the rounding frontier (17 multipliers / 22 divisors x both signs x scale frame x quotient alphabet x residues 0,1,half-1,half,half+1,max) whose product resp. scaled dividend exceeds 128 bits, under 8 thread-default modes, against the single-rounding model. Every tuple counted is distinct within its stage and non-trivial (a real division).".into(),
        exhaustive: true,
        assumptions: vec![
            "oracle: certificate a*b = q*m + r and 0 <= r < m checked by 512-bit multiplication; None iff the floor quotient is outside i128 (-2^127 itself: either)".into(),
            "the y<0 arms of i128_shifted_div_mod_floor are outside the property's contract (positive m) and are not driven".into(),
            if cfg!(feature = "hidden-rounded") { "stage 3 drives the #[doc(hidden)] rounded kernels i128_mul_div_ten_pow_rounded / i128_shifted_div_rounded directly".to_string() } else { "engine built WITHOUT feature hidden-rounded (the rounded kernels changed their signature): stage 3 evaluates the same quotients through mul_rounded / div_rounded (k <= 36)".to_string() },
            "branch coverage of the multi-word division is measured by hook counters (reported, not gated except that listed branches must be reached)".into(),
        ],
        class_name: &class_name_ext,
        required,
        replay: &replay,
    });
    // Hook counters are reported coverage, not a gate (DESIGN §3.5): a legitimate rewrite of the
    // division may move or remove the instrumented branches.
    for m in &missing { eprintln!("note: instrumented branch not reached (reported in evidence, not a failure): {}", m); }
    rc
}
