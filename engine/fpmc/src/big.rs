//! Reference arithmetic: fixed 512-bit unsigned integers plus a sign wrapper.
//!
//! Deliberately boring: schoolbook multiplication, shift-subtract division,
//! and every division certifies itself (`q*d + r == n && r < d`) by
//! multiplication before returning. Nothing here shares code or algorithms
//! with fpdec-core's multi-word routines (Knuth D / Hacker's Delight divlu).

use std::cmp::Ordering;

pub const LIMBS: usize = 8;

#[derive(Clone, Copy, PartialEq, Eq, Hash, Debug)]
pub struct U512(pub [u64; LIMBS]);

impl U512 {
    pub const ZERO: U512 = U512([0; LIMBS]);
    pub const ONE: U512 = U512([1, 0, 0, 0, 0, 0, 0, 0]);

    #[inline]
    pub fn from_u128(v: u128) -> Self {
        let mut l = [0u64; LIMBS];
        l[0] = v as u64;
        l[1] = (v >> 64) as u64;
        U512(l)
    }

    #[inline]
    pub fn from_u64(v: u64) -> Self {
        let mut l = [0u64; LIMBS];
        l[0] = v;
        U512(l)
    }

    #[inline]
    pub fn is_zero(&self) -> bool {
        self.0.iter().all(|&x| x == 0)
    }

    #[inline]
    pub fn fits_u128(&self) -> bool {
        self.0[2..].iter().all(|&x| x == 0)
    }

    #[inline]
    pub fn low_u128(&self) -> u128 {
        (self.0[0] as u128) | ((self.0[1] as u128) << 64)
    }

    pub fn to_u128(&self) -> Option<u128> {
        if self.fits_u128() {
            Some(self.low_u128())
        } else {
            None
        }
    }

    /// Number of significant bits (0 for zero).
    pub fn bits(&self) -> u32 {
        for i in (0..LIMBS).rev() {
            if self.0[i] != 0 {
                return (i as u32) * 64 + (64 - self.0[i].leading_zeros());
            }
        }
        0
    }

    #[inline]
    pub fn bit(&self, i: u32) -> bool {
        (self.0[(i / 64) as usize] >> (i % 64)) & 1 == 1
    }

    pub fn add(&self, o: &U512) -> U512 {
        let mut r = [0u64; LIMBS];
        let mut c = 0u128;
        for i in 0..LIMBS {
            let s = self.0[i] as u128 + o.0[i] as u128 + c;
            r[i] = s as u64;
            c = s >> 64;
        }
        assert!(c == 0, "U512 add overflow (reference model capacity)");
        U512(r)
    }

    /// self - o, requires self >= o.
    pub fn sub(&self, o: &U512) -> U512 {
        let mut r = [0u64; LIMBS];
        let mut b = 0i128;
        for i in 0..LIMBS {
            let d = self.0[i] as i128 - o.0[i] as i128 - b;
            if d < 0 {
                r[i] = (d + (1i128 << 64)) as u64;
                b = 1;
            } else {
                r[i] = d as u64;
                b = 0;
            }
        }
        assert!(b == 0, "U512 sub underflow");
        U512(r)
    }

    pub fn mul(&self, o: &U512) -> U512 {
        let mut w = [0u64; 2 * LIMBS];
        for i in 0..LIMBS {
            if self.0[i] == 0 {
                continue;
            }
            let mut c = 0u128;
            for j in 0..LIMBS {
                let t = (self.0[i] as u128) * (o.0[j] as u128)
                    + w[i + j] as u128
                    + c;
                w[i + j] = t as u64;
                c = t >> 64;
            }
            w[i + LIMBS] = c as u64;
        }
        assert!(
            w[LIMBS..].iter().all(|&x| x == 0),
            "U512 mul overflow (reference model capacity)"
        );
        let mut r = [0u64; LIMBS];
        r.copy_from_slice(&w[..LIMBS]);
        U512(r)
    }

    pub fn mul_u64(&self, m: u64) -> U512 {
        let mut r = [0u64; LIMBS];
        let mut c = 0u128;
        for i in 0..LIMBS {
            let t = (self.0[i] as u128) * (m as u128) + c;
            r[i] = t as u64;
            c = t >> 64;
        }
        assert!(c == 0, "U512 mul_u64 overflow");
        U512(r)
    }

    pub fn shl(&self, n: u32) -> U512 {
        assert!(n < 512);
        assert!(self.bits() + n <= 512, "U512 shl overflow");
        let ws = (n / 64) as usize;
        let bs = n % 64;
        let mut r = [0u64; LIMBS];
        for i in (ws..LIMBS).rev() {
            let mut v = self.0[i - ws] << bs;
            if bs > 0 && i - ws > 0 {
                v |= self.0[i - ws - 1] >> (64 - bs);
            }
            r[i] = v;
        }
        U512(r)
    }

    pub fn shr(&self, n: u32) -> U512 {
        if n >= 512 {
            return U512::ZERO;
        }
        let ws = (n / 64) as usize;
        let bs = n % 64;
        let mut r = [0u64; LIMBS];
        for i in 0..(LIMBS - ws) {
            let mut v = self.0[i + ws] >> bs;
            if bs > 0 && i + ws + 1 < LIMBS {
                v |= self.0[i + ws + 1] << (64 - bs);
            }
            r[i] = v;
        }
        U512(r)
    }

    /// Divide by a small number; returns (quotient, remainder).
    pub fn divrem_u64(&self, d: u64) -> (U512, u64) {
        assert!(d != 0);
        let mut q = [0u64; LIMBS];
        let mut r = 0u128;
        for i in (0..LIMBS).rev() {
            let cur = (r << 64) | self.0[i] as u128;
            q[i] = (cur / d as u128) as u64;
            r = cur % d as u128;
        }
        (U512(q), r as u64)
    }

    /// Shift-subtract division with certificate check.
    pub fn divrem(&self, d: &U512) -> (U512, U512) {
        assert!(!d.is_zero(), "reference model: division by zero");
        if self.fits_u128() && d.fits_u128() {
            let (n, m) = (self.low_u128(), d.low_u128());
            return (U512::from_u128(n / m), U512::from_u128(n % m));
        }
        if *self < *d {
            return (U512::ZERO, *self);
        }
        let nb = self.bits();
        let db = d.bits();
        let mut shift = nb - db;
        let mut dd = d.shl(shift);
        let mut rem = *self;
        let mut q = [0u64; LIMBS];
        loop {
            if rem >= dd {
                rem = rem.sub(&dd);
                q[(shift / 64) as usize] |= 1u64 << (shift % 64);
            }
            if shift == 0 {
                break;
            }
            shift -= 1;
            dd = dd.shr(1);
        }
        let q = U512(q);
        // certificate
        debug_assert!(rem < *d);
        assert!(q.mul(d).add(&rem) == *self && rem < *d, "divrem certificate");
        (q, rem)
    }

    pub fn pow10(k: u32) -> U512 {
        static TABLE: std::sync::OnceLock<Vec<U512>> = std::sync::OnceLock::new();
        let t = TABLE.get_or_init(|| {
            let mut v = Vec::with_capacity(154);
            let mut r = U512::ONE;
            for _ in 0..154 {
                v.push(r);
                r = r.mul_u64(10);
            }
            v
        });
        t[k as usize]
    }

    pub fn pow2(k: u32) -> U512 {
        U512::ONE.shl(k)
    }

    pub fn to_dec_string(&self) -> String {
        if self.is_zero() {
            return "0".to_string();
        }
        let mut digits = Vec::new();
        let mut cur = *self;
        while !cur.is_zero() {
            let (q, r) = cur.divrem_u64(10_000_000_000_000_000_000);
            let mut r = r;
            for _ in 0..19 {
                digits.push(b'0' + (r % 10) as u8);
                r /= 10;
            }
            cur = q;
        }
        while digits.len() > 1 && *digits.last().unwrap() == b'0' {
            digits.pop();
        }
        digits.reverse();
        String::from_utf8(digits).unwrap()
    }

    /// Parse a string of ASCII digits; None if it does not fit 512 bits
    /// (callers only pass <= 150 digits).
    pub fn from_dec_str(s: &str) -> Option<U512> {
        let mut r = U512::ZERO;
        for c in s.bytes() {
            assert!(c.is_ascii_digit());
            if r.bits() > 505 {
                return None;
            }
            r = r.mul_u64(10).add(&U512::from_u64((c - b'0') as u64));
        }
        Some(r)
    }

    pub fn is_odd(&self) -> bool {
        self.0[0] & 1 == 1
    }

    pub fn rem_u64(&self, d: u64) -> u64 {
        self.divrem_u64(d).1
    }
}

impl PartialOrd for U512 {
    fn partial_cmp(&self, o: &Self) -> Option<Ordering> {
        Some(self.cmp(o))
    }
}

impl Ord for U512 {
    fn cmp(&self, o: &Self) -> Ordering {
        for i in (0..LIMBS).rev() {
            match self.0[i].cmp(&o.0[i]) {
                Ordering::Equal => {}
                x => return x,
            }
        }
        Ordering::Equal
    }
}

/// Signed wrapper (sign-magnitude; zero is never negative).
#[derive(Clone, Copy, PartialEq, Eq, Hash, Debug)]
pub struct I512 {
    pub neg: bool,
    pub mag: U512,
}

impl I512 {
    pub const ZERO: I512 = I512 {
        neg: false,
        mag: U512::ZERO,
    };

    pub fn new(neg: bool, mag: U512) -> Self {
        I512 {
            neg: neg && !mag.is_zero(),
            mag,
        }
    }

    pub fn from_i128(v: i128) -> Self {
        I512::new(v < 0, U512::from_u128(v.unsigned_abs()))
    }

    pub fn from_u128(v: u128) -> Self {
        I512::new(false, U512::from_u128(v))
    }

    pub fn is_zero(&self) -> bool {
        self.mag.is_zero()
    }

    pub fn signum(&self) -> i32 {
        if self.mag.is_zero() {
            0
        } else if self.neg {
            -1
        } else {
            1
        }
    }

    pub fn neg(&self) -> I512 {
        I512::new(!self.neg, self.mag)
    }

    pub fn abs(&self) -> I512 {
        I512::new(false, self.mag)
    }

    pub fn add(&self, o: &I512) -> I512 {
        if self.neg == o.neg {
            I512::new(self.neg, self.mag.add(&o.mag))
        } else if self.mag >= o.mag {
            I512::new(self.neg, self.mag.sub(&o.mag))
        } else {
            I512::new(o.neg, o.mag.sub(&self.mag))
        }
    }

    pub fn sub(&self, o: &I512) -> I512 {
        self.add(&o.neg())
    }

    pub fn mul(&self, o: &I512) -> I512 {
        I512::new(self.neg != o.neg, self.mag.mul(&o.mag))
    }

    pub fn mul_pow10(&self, k: u32) -> I512 {
        I512::new(self.neg, self.mag.mul(&U512::pow10(k)))
    }

    /// Truncating division: quotient towards zero, remainder with the sign
    /// of the dividend.
    pub fn divrem_trunc(&self, o: &I512) -> (I512, I512) {
        let (q, r) = self.mag.divrem(&o.mag);
        (I512::new(self.neg != o.neg, q), I512::new(self.neg, r))
    }

    /// The value as i128 if it is within the full i128 range.
    pub fn to_i128(&self) -> Option<i128> {
        let m = self.mag.to_u128()?;
        if self.neg {
            if m <= (1u128 << 127) {
                Some((m as i128).wrapping_neg())
            } else {
                None
            }
        } else if m <= i128::MAX as u128 {
            Some(m as i128)
        } else {
            None
        }
    }

    pub fn to_dec_string(&self) -> String {
        if self.neg {
            format!("-{}", self.mag.to_dec_string())
        } else {
            self.mag.to_dec_string()
        }
    }
}

impl PartialOrd for I512 {
    fn partial_cmp(&self, o: &Self) -> Option<Ordering> {
        Some(self.cmp(o))
    }
}

impl Ord for I512 {
    fn cmp(&self, o: &Self) -> Ordering {
        match (self.neg, o.neg) {
            (false, true) => Ordering::Greater,
            (true, false) => Ordering::Less,
            (false, false) => self.mag.cmp(&o.mag),
            (true, true) => o.mag.cmp(&self.mag),
        }
    }
}

#[cfg(test)]
mod tests {
    use super::*;

    #[test]
    fn small_agree_with_native() {
        let vals: [u128; 9] = [
            0,
            1,
            2,
            10,
            u64::MAX as u128,
            (u64::MAX as u128) + 1,
            u128::MAX / 3,
            u128::MAX - 1,
            u128::MAX,
        ];
        for &a in &vals {
            for &b in &vals {
                let (x, y) = (U512::from_u128(a), U512::from_u128(b));
                if let Some(s) = a.checked_add(b) {
                    assert_eq!(x.add(&y).to_u128(), Some(s));
                }
                if a >= b {
                    assert_eq!(x.sub(&y).to_u128(), Some(a - b));
                }
                if let Some(p) = a.checked_mul(b) {
                    assert_eq!(x.mul(&y).to_u128(), Some(p));
                }
                let p = x.mul(&y);
                if b != 0 {
                    let (q, r) = p.add(&U512::from_u64(7)).divrem(&y);
                    if b > 7 {
                        assert_eq!(q, x);
                        assert_eq!(r, U512::from_u64(7));
                    }
                }
            }
        }
        assert_eq!(U512::pow10(40).to_dec_string(), format!("1{}", "0".repeat(40)));
        assert_eq!(
            U512::from_dec_str(&U512::pow10(77).to_dec_string()).unwrap(),
            U512::pow10(77)
        );
    }
}
