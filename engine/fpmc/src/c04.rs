//! C04: mul_rounded, div_rounded and quantize round the exact result once.

use crate::alpha::{self, Level};
use crate::c03::path_name;
use crate::c05::failure_kind;
use crate::model::{self, DivPath};
use crate::pairs::{self, Stages};
use crate::runner::*;
use crate::spec::*;
use crate::{with_form, with_int, with_int2};
use fpdec::{DivRounded, MulRounded, Quantize, RoundingMode};
use serde_json::{json, Value};

// class: op(2: mulr, divr, quant, reject) | kind(2: dd,di,id,ii) | mode(3) | neg(1) | rem(2) | last(4) | path(2) | wide(1) | fails(1)
fn code(op: u64, kind: u64, mode: usize, neg: bool, rc: RemClass, last: u8, path: u64, wide: bool, fails: bool) -> u64 {
    (op << 18) | (kind << 16) | ((mode as u64) << 13) | ((neg as u64) << 12) | ((rc as u64) << 10) | ((last as u64) << 6) | (path << 4) | ((wide as u64) << 1) | fails as u64
}

const KINDS: [&str; 4] = ["Decimal,Decimal", "Decimal,int", "int,Decimal", "int,int"];

fn class_name(c: u64) -> String {
    let op = ["mul_rounded", "div_rounded", "quantize", "reject n>18"][(c >> 18) as usize & 3];
    let kind = KINDS[(c >> 16) as usize & 3];
    if (c >> 18) & 3 == 3 {
        return format!("{}/{}", op, kind);
    }
    let path = (c >> 4) & 3;
    let pathn = if (c >> 18) & 3 == 0 {
        ["no rounding (n>=p+q)", "rounded", "zero", "?"][path as usize].to_string()
    } else {
        path_name([DivPath::Equal, DivPath::NarrowShift, DivPath::WideShift, DivPath::DivisorSide][path as usize]).to_string()
    };
    format!("{}({})/{}/{}/{}/last={}/{}/{}{}", op, kind, pathn, mode_name(ALL_MODES[((c >> 13) & 7) as usize]),
        if (c >> 12) & 1 == 1 { "neg" } else { "nonneg" }, (c >> 6) & 15, ["exact", "below-half", "tie", "above-half"][((c >> 10) & 3) as usize],
        if (c >> 1) & 1 == 1 { "wide/" } else { "" }, if c & 1 == 1 { "overflow" } else { "value" })
}

fn check(l: &mut Local, what: &str, pathname: &str, exp: &Expect, got: Out, mk: &dyn Fn() -> Value) {
    l.evals += 1;
    l.outcome(fnv(got.show().as_bytes()));
    // invariant on every outcome: never more than 18 fractional digits
    if let Out::Val(_, s) = got {
        if s > 18 {
            l.violation(format!("{} | {} | more than 18 fractional digits", what, pathname), || (format!("{} returned {} case={}", what, got.show(), mk()), mk()));
            return;
        }
    }
    if !accepts(exp, &got, &Out::Panic) {
        let kind = failure_kind(exp, &got, &Out::Panic);
        l.violation(format!("{} | {} | {}", what, pathname, kind), || {
            (format!("{} model={} impl={} case={}", what, show_expect(exp), got.show(), mk()), mk())
        });
    }
}

fn mulr_case(a: i128, p: u8, b: i128, q: u8, n: u8, mode: RoundingMode, all_forms: bool, l: &mut Local) {
    let (x, y) = (dec(a, p), dec(b, q));
    let mk = || json!({"k":"mulr","a":a.to_string(),"p":p,"b":b.to_string(),"q":q,"n":n,"mode":mode_name(mode)});
    let (exp, info) = model::mul_rounded(a, p, b, q, n, mode);
    let fails = matches!(exp, Expect::Fail);
    let (c, pathname) = match &info {
        Some(i) => (code(0, 0, mode_idx(mode), i.negative, i.rem_class, i.last_digit, 1, i.wide, fails), if i.wide { "rounded, product beyond i128" } else { "rounded, product within i128" }),
        None => (code(0, 0, 0, (a < 0) != (b < 0), RemClass::Exact, 0, if a == 0 || b == 0 { 2 } else { 0 }, false, fails), if a == 0 || b == 0 { "zero operand" } else { "n>=p+q" }),
    };
    if l.class(c) { l.sample(c, json!({"op":"mul_rounded","x":[a.to_string(),p],"y":[b.to_string(),q],"n":n,"mode":mode_name(mode),"model":show_expect(&exp)})); }
    if info.is_some() { l.distinct += 1; }
    let nforms = if all_forms { 4 } else { 1 };
    for form in 0..nforms {
        check(l, "Decimal.mul_rounded(Decimal)", pathname, &exp, with_form!(form, x, y, |u, v| out_op(|| u.mul_rounded(v, n))), &mk);
    }
}

fn div_class(op: u64, kind: u64, a: i128, b: i128, mode: RoundingMode, exp: &Expect, info: &Option<(DivPath, model::RoundInfo)>) -> (u64, &'static str) {
    match info {
        Some((path, i)) => (code(op, kind, mode_idx(mode), i.negative, i.rem_class, i.last_digit, *path as u64, false, matches!(exp, Expect::Fail)), path_name(*path)),
        None => (code(op, kind, 0, false, RemClass::Exact, 0, 0, true, b == 0), if b == 0 { "zero divisor" } else { let _ = a; "zero dividend" }),
    }
}

/// kind: 0 dd, 1 di (t = type of divisor), 2 id (t = type of dividend), 3 ii
fn divr_case(kind: u64, a: i128, p: u8, b: i128, q: u8, t: usize, n: u8, mode: RoundingMode, all_forms: bool, l: &mut Local) {
    let mk = || json!({"k":"divr","kind":kind,"a":a.to_string(),"p":p,"b":b.to_string(),"q":q,"t":t,"n":n,"mode":mode_name(mode)});
    let (mut exp, info) = model::div_rounded(a, p, b, q, n, mode);
    if a == i128::MIN || b == i128::MIN { exp = Expect::Either(Box::new(exp)); }
    let (c, pathname) = div_class(1, kind, a, b, mode, &exp, &info);
    if l.class(c) { l.sample(c, json!({"op":"div_rounded","kind":KINDS[kind as usize],"x":[a.to_string(),p],"y":[b.to_string(),q],"n":n,"mode":mode_name(mode),"model":show_expect(&exp)})); }
    if info.is_some() { l.distinct += 1; }
    let nforms = if all_forms { 4 } else { 1 };
    let tn = alpha::INT_TYPES[t];
    for form in 0..nforms {
        match kind {
            0 => check(l, "Decimal.div_rounded(Decimal)", pathname, &exp, with_form!(form, dec(a, p), dec(b, q), |u, v| out_op(|| u.div_rounded(v, n))), &mk),
            1 => with_int!(t, b, i => check(l, &format!("Decimal.div_rounded({})", tn), pathname, &exp, with_form!(form, dec(a, p), i, |u, v| out_op(|| u.div_rounded(v, n))), &mk)),
            2 => with_int!(t, a, i => check(l, &format!("{}.div_rounded(Decimal)", tn), pathname, &exp, with_form!(form, i, dec(b, q), |u, v| out_op(|| u.div_rounded(v, n))), &mk)),
            _ => with_int2!(t, a, b, i, j => (check(l, &format!("{}.div_rounded({})", tn, tn), pathname, &exp, with_form!(form, i, j, |u, v| out_op(|| u.div_rounded(v, n))), &mk))),
        }
    }
}

fn quant_case(kind: u64, a: i128, p: u8, b: i128, q: u8, t: usize, mode: RoundingMode, l: &mut Local) {
    let mk = || json!({"k":"quant","kind":kind,"a":a.to_string(),"p":p,"b":b.to_string(),"q":q,"t":t,"mode":mode_name(mode)});
    let (mut exp, info) = model::quantize(a, p, b, q, mode);
    if a == i128::MIN || b == i128::MIN { exp = Expect::Either(Box::new(exp)); }
    let (c, pathname) = div_class(2, kind, a, b, mode, &exp, &info);
    if l.class(c) { l.sample(c, json!({"op":"quantize","kind":KINDS[kind as usize],"x":[a.to_string(),p],"quantum":[b.to_string(),q],"mode":mode_name(mode),"model":show_expect(&exp)})); }
    if info.is_some() { l.distinct += 1; }
    let tn = alpha::INT_TYPES[t];
    match kind {
        0 => {
            check(l, "Decimal.quantize(Decimal)", pathname, &exp, out_op(|| dec(a, p).quantize(dec(b, q))), &mk);
            check(l, "&Decimal.quantize(Decimal)", pathname, &exp, out_op(|| (&dec(a, p)).quantize(dec(b, q))), &mk);
        }
        1 => with_int!(t, b, i => check(l, &format!("Decimal.quantize({})", tn), pathname, &exp, out_op(|| dec(a, p).quantize(i)), &mk)),
        2 => with_int!(t, a, i => check(l, &format!("{}.quantize(Decimal)", tn), pathname, &exp, out_op(|| i.quantize(dec(b, q))), &mk)),
        _ => with_int2!(t, a, b, i, j => (check(l, &format!("{}.quantize({})", tn, tn), pathname, &exp, out_op(|| i.quantize(j)), &mk))),
    }
}

/// n > 18 must be rejected (panic) on every implementation form.
fn reject_case(kind: u64, a: i128, p: u8, b: i128, q: u8, t: usize, n: u8, l: &mut Local) {
    let mk = || json!({"k":"reject","kind":kind,"a":a.to_string(),"p":p,"b":b.to_string(),"q":q,"t":t,"n":n});
    let exp = Expect::Fail;
    l.class(code(3, kind, 0, false, RemClass::Exact, 0, 0, false, true));
    l.distinct += 1;
    let tn = alpha::INT_TYPES[t];
    for form in 0..4 {
        match kind {
            0 => {
                check(l, "Decimal.div_rounded(Decimal)", "n>18", &exp, with_form!(form, dec(a, p), dec(b, q), |u, v| out_op(|| u.div_rounded(v, n))), &mk);
                check(l, "Decimal.mul_rounded(Decimal)", "n>18", &exp, with_form!(form, dec(a, p), dec(b, q), |u, v| out_op(|| u.mul_rounded(v, n))), &mk);
            }
            1 => with_int!(t, b, i => check(l, &format!("Decimal.div_rounded({})", tn), "n>18", &exp, with_form!(form, dec(a, p), i, |u, v| out_op(|| u.div_rounded(v, n))), &mk)),
            2 => with_int!(t, a, i => check(l, &format!("{}.div_rounded(Decimal)", tn), "n>18", &exp, with_form!(form, i, dec(b, q), |u, v| out_op(|| u.div_rounded(v, n))), &mk)),
            _ => with_int2!(t, a, b, i, j => (check(l, "int.div_rounded(int)", "n>18", &exp, with_form!(form, i, j, |u, v| out_op(|| u.div_rounded(v, n))), &mk))),
        }
    }
}

pub fn replay(w: &Value) -> Vec<(String, String)> {
    let run = Run::new("C04", Tier::Quick);
    let prev = RoundingMode::default();
    let mode = w["mode"].as_str().and_then(mode_from_name).unwrap_or(RoundingMode::RoundHalfEven);
    RoundingMode::set_default(mode);
    let g = |k: &str| -> i128 { w[k].as_str().unwrap().parse().unwrap() };
    let u = |k: &str| -> u64 { w[k].as_u64().unwrap_or(0) };
    run.seq(|l| match w["k"].as_str().unwrap_or("") {
        "mulr" => mulr_case(g("a"), u("p") as u8, g("b"), u("q") as u8, u("n") as u8, mode, true, l),
        "divr" => divr_case(u("kind"), g("a"), u("p") as u8, g("b"), u("q") as u8, u("t") as usize, u("n") as u8, mode, true, l),
        "quant" => quant_case(u("kind"), g("a"), u("p") as u8, g("b"), u("q") as u8, u("t") as usize, mode, l),
        "reject" => reject_case(u("kind"), g("a"), u("p") as u8, g("b"), u("q") as u8, u("t") as usize, u("n") as u8, l),
        _ => {}
    });
    RoundingMode::set_default(prev);
    run.violations().into_iter().map(|(s, r)| (s, r.detail)).collect()
}

/// The n values tried for a scale pair: ends, middle, and every n at which a
/// branch of the implementation changes (n+q = p, n = p+q) with neighbours.
fn nset(p: u8, q: u8, all: bool) -> Vec<u8> {
    nset_lv(p, q, all, false)
}

fn nset_lv(p: u8, q: u8, all: bool, reduced: bool) -> Vec<u8> {
    if all { return (0..=18).collect(); }
    let d = p as i32 - q as i32;
    let mut v: Vec<i32> = if reduced { vec![0, 18] } else { vec![0, 1, 9, 17, 18] };
    if reduced { v.extend_from_slice(&[d - 1, d, p as i32 + q as i32 - 1]); } else {
    v.extend_from_slice(&[d - 1, d, d + 1, p as i32 + q as i32 - 1, p as i32 + q as i32]); }
    let mut v: Vec<u8> = v.into_iter().filter(|x| (0..=18).contains(x)).map(|x| x as u8).collect();
    v.sort(); v.dedup(); v
}

pub fn run(tier: Tier) -> i32 {
    let run = Run::new("C04", tier);
    let lv = if tier.thorough() { Level::Thorough } else { Level::Quick };
    let big = alpha::coeffs(1, 20, if tier.thorough() { Level::Mid } else { Level::Quick });
    let st = Stages::new(if tier.thorough() { 24 } else { 10 }, lv, big);
    let noskip = |_: i128, _: u8, _: i128, _: u8| false;
    let qs = pairs::quotients(lv);
    let qs_short: Vec<i128> = qs.iter().copied().filter(|q| *q <= 25 || *q >= M - 2 || [10i128.pow(9), 10i128.pow(18) + 5, 10i128.pow(19) - 1].contains(q)).collect();
    let divs = pairs::divisors(lv);

    // S1: complete small scope, all n
    let s1 = st.outers_s1();
    let n1 = st.s1_n;
    pairs::run_pairs(&run, &s1, &ALL_MODES, &|_, _, _, out| out.extend(-n1..=n1), &noskip, &|a, p, b, q, m, l| {
        for n in 0..=18u8 {
            mulr_case(a, p, b, q, n, m, true, l);
            divr_case(0, a, p, b, q, 0, n, m, true, l);
        }
        quant_case(0, a, p, b, q, 0, m, l);
    });
    run.stage("S1 small scope", json!({"|a|,|b|<=":n1,"scale_pairs":361,"n":"0..=18","modes":8}));

    // S2a: reduced alphabet squared x 361 pairs x nset
    let quick = !tier.thorough();
    let s2a: Vec<pairs::Outer> = if quick { st.outers_small().into_iter().filter(|&(_, p, q)| p == 0 || q == 0 || p == 18 || q == 18).enumerate().filter(|(i, _)| i % 2 == 0).map(|(_, o)| o).collect() } else { st.outers_small() };
    pairs::run_pairs(&run, &s2a, &ALL_MODES, &|_, _, _, out| out.extend_from_slice(&st.small), &|a, _, b, _| st.in_s1(a, b), &|a, p, b, q, m, l| {
        for n in nset_lv(p, q, false, quick) {
            mulr_case(a, p, b, q, n, m, false, l);
            divr_case(0, a, p, b, q, 0, n, m, false, l);
        }
        quant_case(0, a, p, b, q, 0, m, l);
    });
    run.stage("S2a reduced alphabet squared x scale pairs", json!({"alphabet":st.small.len(),"scale_pairs": if quick { 72 } else { 361 },"n": if quick { "0,18,p-q-1,p-q,p+q-1" } else { "0,1,9,17,18 and p-q+{-1,0,1}, p+q-{1,0}" }}));

    // S2b: large x reduced x frame, both orders
    let s2b: Vec<pairs::Outer> = if quick { st.outers_big().into_iter().enumerate().filter(|(i, _)| i % 9 == 0).map(|(_, o)| o).collect() } else { st.outers_big() };
    pairs::run_pairs(&run, &s2b, &ALL_MODES, &|_, _, _, out| out.extend_from_slice(&st.small),
        &|a, _, b, _| st.in_s1(a, b) || st.in_small(a, b), &|a, p, b, q, m, l| {
        for n in nset_lv(p, q, false, quick) {
            mulr_case(a, p, b, q, n, m, false, l);
            divr_case(0, a, p, b, q, 0, n, m, false, l);
            divr_case(0, b, q, a, p, 0, n, m, false, l);
        }
        quant_case(0, a, p, b, q, 0, m, l);
        quant_case(0, b, q, a, p, 0, m, l);
    });
    run.stage("S2b large alphabet x reduced alphabet x scale frame, both orders", json!({"large":st.big.len(),"reduced":st.small.len(),"outer_keys":s2b.len(),"thinning": if quick { "every 9th (coefficient, scale pair) key" } else { "none" }}));

    // S3d: div_rounded / quantize rounding frontier over all four branches
    let pairs_s3: &Vec<(u8, u8)> = if tier.thorough() { &st.all } else { &st.frame };
    let mut s3: Vec<pairs::Outer> = Vec::new();
    for (ib, &b) in divs.iter().enumerate() { if quick && ib % 3 != 0 { continue; } for sgn in [1i128, -1] { for &(p, q) in pairs_s3 { s3.push((sgn * b, p, q)); } } }
    for mode in ALL_MODES {
        run.par_for(&s3, || RoundingMode::set_default(mode), |&(b, p, q), l| {
            for n in nset_lv(p, q, false, quick) {
                let (ns, ds) = (q as u32 + n as u32, p as u32);
                let c = ns.min(ds);
                let mut xs = Vec::new();
                pairs::frontier_div_round(b, ns - c, ds - c, &qs_short, &mut xs);
                xs.retain(|x| *x != i128::MIN);
                xs.sort(); xs.dedup();
                for a in xs {
                    if st.in_s1(a, b) { continue; }
                    divr_case(0, a, p, b, q, 0, n, mode, false, l);
                    if n == 0 { quant_case(0, a, p, b, q, 0, mode, l); }
                }
            }
        });
    }
    run.stage("S3 div_rounded/quantize rounding frontier", json!({"divisors":divs.len(),"quotients":qs_short.len(),"scale_pairs":pairs_s3.len(),
        "note":"for p>n+q the boundary is Q*|b|*10^(p-n-q) and its half: dividends whose truncated integer quotient is exactly on a half while the exact quotient is above it"}));

    // S3m: mul_rounded rounding frontier
    let mults: Vec<i128> = vec![3, 7, 11, 99, 101, 999_999_937, (1 << 61) - 1, (1 << 64) + 13, 123456789012345678901234567, (1i128 << 100) + 277, (1i128 << 120) + 451,
        2, 4, 5, 8, 25, 125, 1 << 40, 1 << 70, 5i128.pow(20), 10, 10i128.pow(9), 10i128.pow(18), 6, 15, 1 << 126];
    let mut s3m: Vec<pairs::Outer> = Vec::new();
    for &b in &mults { for sgn in [1i128, -1] { for &(p, q) in pairs_s3 { s3m.push((sgn * b, p, q)); } } }
    for mode in ALL_MODES {
        run.par_for(&s3m, || RoundingMode::set_default(mode), |&(b, p, q), l| {
            for n in nset(p, q, false) {
                let s = p as u32 + q as u32;
                if (n as u32) >= s { continue; }
                let mut xs = Vec::new();
                pairs::frontier_mul_round(b, s - n as u32, &qs_short, &mut xs);
                xs.retain(|x| *x != i128::MIN);
                xs.sort(); xs.dedup();
                for a in xs { if st.in_s1(a, b) { continue; } mulr_case(a, p, b, q, n, mode, false, l); }
            }
        });
    }
    run.stage("S3 mul_rounded rounding frontier", json!({"multipliers":mults.len()}));

    // integer operand combinations: di, id, ii for every type
    let mut items: Vec<(usize, i128)> = Vec::new();
    for t in 0..9 { for v in alpha::int_values(t, Level::Quick, &[3, 7, -7, 64, 250, 65535, 999_999_999]) { items.push((t, v)); } }
    for mode in ALL_MODES {
        run.par_for(&items, || RoundingMode::set_default(mode), |&(t, v), l| {
            let ivals = alpha::int_values(t, Level::Quick, &[3, 7, -7, 2, 6]);
            for p in [0u8, 1, 2, 9, 17, 18] {
                for n in nset(p, 0, false) {
                    let mut xs: Vec<i128> = st.small.iter().copied().filter(|x| x.abs() <= 1000 || x.abs() > M / 1000).collect();
                    let (ns, ds) = (n as u32, p as u32);
                    let c = ns.min(ds);
                    pairs::frontier_div_round(v, ns - c, ds - c, &qs_short[..qs_short.len().min(30)], &mut xs);
                    xs.retain(|x| *x != i128::MIN);
                    xs.sort(); xs.dedup();
                    for &a in &xs {
                        divr_case(1, a, p, v, 0, t, n, mode, false, l);
                        divr_case(2, v, 0, a, p, t, n, mode, false, l);
                        if n == 0 { quant_case(1, a, p, v, 0, t, mode, l); quant_case(2, v, 0, a, p, t, mode, l); }
                    }
                }
            }
            for &w in &ivals {
                for n in [0u8, 1, 2, 5, 17, 18] { divr_case(3, v, 0, w, 0, t, n, mode, false, l); }
                quant_case(3, v, 0, w, 0, t, mode, l);
            }
        });
    }
    run.stage("integer operand combinations", json!({"types":9,"int_values":items.len(),"kinds":"Decimal/int, int/Decimal, int/int"}));

    // rejection: every n in 19..=255 on every implementation form
    let rej_ops: Vec<(i128, u8, i128, u8)> = vec![(151, 2, 3, 0), (1, 0, 3, 0), (-7, 18, 2, 18), (1, 0, 1, 0), (M, 0, 7, 3), (5, 1, -2, 0)];
    let ns: Vec<u8> = (19..=255u8).collect();
    run.par_for(&ns, || {}, |&n, l| {
        for &(a, p, b, q) in &rej_ops {
            reject_case(0, a, p, b, q, 0, n, l);
            for t in 0..9 {
                let (lo, hi) = alpha::int_range(t);
                let bi = b.clamp(lo.max(-100), hi.min(100)); let bi = if bi == 0 { 3 } else { bi };
                let ai = a.clamp(lo.max(-100), hi.min(100)); let ai = if ai == 0 { 1 } else { ai };
                reject_case(1, a, p, bi, 0, t, n, l);
                reject_case(2, ai, 0, b, q, t, n, l);
                reject_case(3, ai, 0, bi, 0, t, n, l);
            }
        }
    });
    run.stage("rejection n in 19..=255", json!({"n_values":ns.len(),"forms":"4 reference forms x {Decimal,Decimal; Decimal,int; int,Decimal; int,int} x 9 types"}));

    let mut required: Vec<Vec<u64>> = Vec::new();
    let rcs = [RemClass::Exact, RemClass::BelowHalf, RemClass::Tie, RemClass::AboveHalf];
    for m in 0..8 { for neg in [false, true] { for rc in rcs {
        // mul_rounded rounded path, narrow and wide
        for wide in [false, true] { required.push((0..10u8).map(|ld| code(0, 0, m, neg, rc, ld, 1, wide, false)).collect()); }
        // div_rounded Decimal/Decimal: every branch
        for path in 0..4u64 { required.push((0..10u8).map(|ld| code(1, 0, m, neg, rc, ld, path, false, false)).collect()); }
        // quantize
        required.push((0..10u8).flat_map(|ld| (0..4u64).map(move |path| code(2, 0, m, neg, rc, ld, path, false, false))).collect());
        // int kinds
        for kind in 1..4u64 { required.push((0..10u8).flat_map(|ld| (0..4u64).map(move |path| code(1, kind, m, neg, rc, ld, path, false, false))).collect()); }
    }}}
    for kind in 0..4u64 { required.push(vec![code(3, kind, 0, false, RemClass::Exact, 0, 0, false, true)]); }

    finish(Finish {
        run: &run,
        level: "model_checking",
        rule: "Complete enumeration of (x, y, n, thread-default mode): S1 all |a|,|b|<=N x 361 scale pairs x n in 0..=18 x 8 modes; S2 boundary alphabets crossed with the n values at which a branch changes (n+q=p, n=p+q, neighbours, 0,1,9,17,18); S3 rounding frontiers solved for the dividend / multiplicand for all four branches of the division (equal, scaled dividend narrow and 256-bit, divisor side larger) incl. exact ties; integer operand combinations (Decimal/int, int/Decimal, int/int, 9 types); rejection of every n in 19..=255 on every implementation form. distinct_nontrivial counts distinct (tuple, n, mode) reaching a rounding step.".into(),
        exhaustive: true,
        assumptions: vec![
            "reference model: exact rational rounded once to n digits in 512-bit arithmetic".into(),
            "quantize: a panic is also accepted when the multiple count x/q itself exceeds i128; zero results may carry fewer digits; -2^127 operands/results accepted either way".into(),
        ],
        class_name: &class_name,
        required,
        replay: &replay,
    })
}
