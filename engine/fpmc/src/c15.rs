//! C15: floor, ceil, trunc, fract, abs, neg, magnitude and sign predicates are exact.

use crate::alpha::{self, Level};
use crate::big::{I512, U512};
use crate::c06;
use crate::pairs;
use crate::runner::*;
use crate::spec::*;
use fpdec::{Decimal, ParseDecimalError};
use num_traits::{Num, One, Signed, Zero};
use serde_json::{json, Value};
use std::str::FromStr;

fn dv(d: Decimal) -> (i128, u8) { (d.coefficient(), d.n_frac_digits()) }

fn chk<T: PartialEq + std::fmt::Debug>(l: &mut Local, name: &str, cls: &str, got: Result<T, ()>, want: T, mk: &dyn Fn() -> Value) {
    l.evals += 1;
    match got {
        Ok(g) if g == want => {}
        Ok(g) => l.violation(format!("{} | {} | wrong result", name, cls), || (format!("{} = {:?}, expected {:?} case={}", name, g, want, mk()), mk())),
        Err(()) => l.violation(format!("{} | {} | panicked", name, cls), || (format!("{} panicked, expected {:?} case={}", name, want, mk()), mk())),
    }
}

pub fn unary_case(a: i128, f: u8, l: &mut Local) {
    let d = Decimal::new_raw(a, f);
    let mk = || json!({"k": "un", "a": a.to_string(), "f": f});
    let pf = U512::pow10(f as u32);
    let ai = I512::from_i128(a);
    let fl = pairs::floor_div(&ai, &pf).to_i128().unwrap();
    let (tq, tr) = ai.divrem_trunc(&I512::new(false, pf));
    let (tq, tr) = (tq.to_i128().unwrap(), tr.to_i128().unwrap());
    let ce = if tr == 0 { tq } else if a > 0 { tq + 1 } else { tq };
    let integral = tr == 0;
    let ndig = U512::from_u128(a.unsigned_abs()).to_dec_string().len() as i32;
    let mag: i8 = if a == 0 { 0 } else { (ndig - 1 - f as i32) as i8 };
    let cls = if a == 0 { if f == 0 { "zero, scale 0" } else { "zero, scale>0" } } else if integral { if f == 0 { "integral, scale 0" } else { "integral value written with trailing zeros" } } else if a < 0 { "negative non-integral" } else { "positive non-integral" };
    let c = ((a < 0) as u64) << 7 | ((a == 0) as u64) << 6 | (integral as u64) << 5 | f as u64;
    if l.class(c) { l.sample(c, json!({"coeff": a.to_string(), "scale": f, "floor": fl.to_string(), "ceil": ce.to_string(), "trunc": tq.to_string(), "fract": [tr.to_string(), f], "magnitude": mag})); }
    l.distinct += 1;
    // floor / ceil / trunc: the statement fixes the (integral) VALUE; it names the scale only for fract, neg and
    // abs. A result written with fractional zeros (3.00) is therefore accepted, any other value is not.
    let norm = |(c, sc): (i128, u8), want: i128| -> (i128, u8) { if sc <= 18 && alpha::pow10(sc as u32).checked_mul(want) == Some(c) { (want, 0) } else { (c, sc) } };
    chk(l, "floor", cls, catch(|| norm(dv(d.floor()), fl)), (fl, 0), &mk);
    chk(l, "ceil", cls, catch(|| norm(dv(d.ceil()), ce)), (ce, 0), &mk);
    chk(l, "trunc", cls, catch(|| norm(dv(d.trunc()), tq)), (tq, 0), &mk);
    // fract carries d's sign and scale (a zero fraction of a scale-0 value is ZERO)
    chk(l, "fract", cls, catch(|| dv(d.fract())), (tr, f), &mk);
    chk(l, "neg", cls, catch(|| dv(-d)), (-a, f), &mk);
    chk(l, "neg(&)", cls, catch(|| dv(-&d)), (-a, f), &mk);
    chk(l, "abs", cls, catch(|| dv(d.abs())), (a.abs(), f), &mk);
    let mcls = if a == 0 { cls.to_string() } else { format!("{} digits", if ndig >= 33 { "33..39" } else if ndig >= 17 { "17..32" } else if ndig >= 6 { "6..16" } else { "1..5" }) };
    chk(l, "magnitude", &mcls, catch(|| d.magnitude()), mag, &mk);
    chk(l, "eq_zero", cls, catch(|| d.eq_zero()), a == 0, &mk);
    chk(l, "eq_one", cls, catch(|| d.eq_one()), a == alpha::pow10(f as u32), &mk);
    chk(l, "is_negative", cls, catch(|| d.is_negative()), a < 0, &mk);
    chk(l, "is_positive", cls, catch(|| d.is_positive()), a > 0, &mk);
    // identities of the statement, evaluated on the implementation's own results
    l.evals += 1;
    if let (Ok(t), Ok(fr)) = (catch(|| d.trunc()), catch(|| d.fract())) {
        let sum = I512::from_i128(t.coefficient()).mul_pow10((f - t.n_frac_digits().min(f)) as u32).add(&I512::from_i128(fr.coefficient()).mul_pow10((f - fr.n_frac_digits().min(f)) as u32));
        if sum != ai { l.violation(format!("trunc+fract | {} | does not add up to d", cls), || (format!("trunc {:?} + fract {:?} != ({},{})", dv(t), dv(fr), a, f), mk())); }
    }
    // num-traits
    chk(l, "Zero::is_zero", cls, catch(|| Zero::is_zero(&d)), a == 0, &mk);
    chk(l, "One::is_one", cls, catch(|| One::is_one(&d)), a == alpha::pow10(f as u32), &mk);
    chk(l, "Signed::abs", cls, catch(|| dv(Signed::abs(&d))), (a.abs(), f), &mk);
    // "signum in {-1,0,1}": the VALUE is fixed, not the number of fractional digits it is written with
    // (a rework returning -1.00 for -9.38 raised a false alarm here; DESIGN §9 soundness round 2)
    chk(l, "Signed::signum", cls, catch(|| norm(dv(Signed::signum(&d)), a.signum())), (a.signum(), 0), &mk);
    chk(l, "Signed::is_positive", cls, catch(|| Signed::is_positive(&d)), a > 0, &mk);
    chk(l, "Signed::is_negative", cls, catch(|| Signed::is_negative(&d)), a < 0, &mk);
}

pub fn abs_sub_case(a: i128, p: u8, b: i128, q: u8, l: &mut Local) {
    let (x, y) = (Decimal::new_raw(a, p), Decimal::new_raw(b, q));
    let mk = || json!({"k": "abssub", "a": a.to_string(), "p": p, "b": b.to_string(), "q": q});
    let ord = crate::c08::model_cmp(a, p, b, q);
    let got = match catch(|| Signed::abs_sub(&x, &y)) { Ok(d) => Out::from_dec(d), Err(()) => Out::Panic };
    l.evals += 1; l.distinct += 1;
    l.class(1 << 10 | (ord as i8 + 1) as u64);
    let exp = if ord != std::cmp::Ordering::Greater { Expect::Value { c: I512::ZERO, s: 0, max_scale: 18 } } else {
        let (e, _) = crate::model::add_sub(a, p, b, q, true);
        match e { Expect::Exact(c, s) => Expect::Value { c: I512::from_i128(c), s, max_scale: 18 }, other => other }
    };
    if !accepts(&exp, &got, &Out::Panic) {
        l.violation(format!("Signed::abs_sub | {} | {}", if ord == std::cmp::Ordering::Greater { "x>y" } else { "x<=y" }, crate::c05::failure_kind(&exp, &got, &Out::Panic)), || (format!("abs_sub(({},{}),({},{})) = {}, expected {}", a, p, b, q, got.show(), show_expect(&exp)), mk()));
    }
}

pub fn radix_case(s: &str, radix: u32, l: &mut Local) {
    let mk = || json!({"k": "radix", "s": s, "radix": radix});
    let got = catch(|| <Decimal as Num>::from_str_radix(s, radix));
    let want = Decimal::from_str(s);
    l.evals += 1; l.distinct += 1;
    l.class(2 << 10 | (radix == 10) as u64);
    let ok = match (&got, radix) {
        (Err(()), _) => false,
        (Ok(g), 10) => match (g, &want) { (Ok(x), Ok(y)) => dv(*x) == dv(*y), (Err(x), Err(y)) => x == y, _ => false },
        (Ok(g), _) => matches!(g, Err(ParseDecimalError::Invalid)),
    };
    if !ok { l.violation(format!("Num::from_str_radix | radix {} | wrong result", if radix == 10 { "10" } else { "other" }), || (format!("from_str_radix({:?}, {}) = {:?}; from_str = {:?}", s, radix, got.as_ref().map(|r| r.as_ref().map(|d| dv(*d))), want.as_ref().map(|d| dv(*d))), mk())); }
}

pub fn replay(w: &Value) -> Vec<(String, String)> {
    let run = Run::new("C15", Tier::Quick);
    let g = |k: &str| -> i128 { w[k].as_str().unwrap().parse().unwrap() };
    run.seq(|l| match w["k"].as_str().unwrap_or("") {
        "un" => unary_case(g("a"), w["f"].as_u64().unwrap() as u8, l),
        "abssub" => abs_sub_case(g("a"), w["p"].as_u64().unwrap() as u8, g("b"), w["q"].as_u64().unwrap() as u8, l),
        "radix" => radix_case(w["s"].as_str().unwrap(), w["radix"].as_u64().unwrap() as u32, l),
        _ => {}
    });
    run.violations().into_iter().map(|(s, r)| (s, r.detail)).collect()
}

fn class_name(c: u64) -> String {
    match c >> 10 {
        1 => format!("abs_sub/{}", ["x<y", "x==y", "x>y"][(c & 3) as usize]),
        2 => format!("from_str_radix/{}", if c & 1 == 1 { "radix 10" } else { "other radix" }),
        _ => format!("unary/{}/{}/scale {}", if (c >> 7) & 1 == 1 { "negative" } else if (c >> 6) & 1 == 1 { "zero" } else { "positive" }, if (c >> 5) & 1 == 1 { "integral" } else { "non-integral" }, c & 31),
    }
}

pub fn run(tier: Tier) -> i32 {
    let run = Run::new("C15", tier);
    let th = tier.thorough();
    let n: i128 = if th { 50_000_000 } else { 1_000_000 };
    run.par_range(-n, n, || {}, |a, l| { for f in 0..=18u8 { unary_case(a, f, l); } });
    run.stage("unary: small scope", json!({"|a|<=": n, "scales": 19}));
    let k = alpha::coeffs(2, 50, if th { Level::Thorough } else { Level::Mid });
    run.par_for(&k, || {}, |&a, l| { if a.abs() > n { for f in 0..=18u8 { unary_case(a, f, l); } } });
    run.stage("unary: coefficient alphabet (all 39 power-of-ten boundaries +-2 in every scale)", json!({"coefficients": k.len()}));
    // abs_sub on pairs
    let st = pairs::Stages::new(if th { 40 } else { 20 }, Level::Quick, alpha::coeffs(1, 20, Level::Quick));
    let none = [fpdec::RoundingMode::RoundHalfEven];
    let noskip = |_: i128, _: u8, _: i128, _: u8| false;
    let s1 = st.outers_s1(); let nn = st.s1_n;
    pairs::run_pairs(&run, &s1, &none, &|_, _, _, out| out.extend(-nn..=nn), &noskip, &|a, p, b, q, _, l| abs_sub_case(a, p, b, q, l));
    let s2 = st.outers_small();
    pairs::run_pairs(&run, &s2, &none, &|b, p, q, out| { out.extend_from_slice(&st.small); pairs::frontier_add(b, p, q, out); }, &|a, _, b, _| st.in_s1(a, b), &|a, p, b, q, _, l| abs_sub_case(a, p, b, q, l));
    run.stage("abs_sub", json!({"small_scope": nn, "alphabet": st.small.len(), "frontier": "difference on / next to the representable limit"}));
    // from_str_radix
    let radices = [0u32, 1, 2, 8, 9, 10, 11, 16, 36, 37, u32::MAX];
    let lits: Vec<String> = {
        let mut v: Vec<String> = vec!["", "0", "-17.5", "+.5", "1e5", "1E-3", "0.", "1e+", "abc", "ff", "101", "7", "1_0", " 1", "170141183460469231731687303715884105727", "170141183460469231731687303715884105728", "0.0000000000000000001", "1e39", "٣"].into_iter().map(String::from).collect();
        for a in c06::SIGMA { for b in c06::SIGMA { for c in c06::SIGMA { v.push(format!("{}{}{}", a, b, c)); } } }
        v
    };
    run.par_for(&lits, || {}, |s, l| { for &r in &radices { radix_case(s, r, l); } });
    run.stage("from_str_radix", json!({"radices": radices, "strings": lits.len()}));

    let mut required: Vec<Vec<u64>> = Vec::new();
    for f in 0..=18u64 {
        required.push(vec![(1 << 6) | (1 << 5) | f]); // every zero representation
        for neg in [0u64, 1 << 7] { required.push(vec![neg | (1 << 5) | f]); if f > 0 { required.push(vec![neg | f]); } }
    }
    for o in 0..3u64 { required.push(vec![1 << 10 | o]); }
    required.push(vec![2 << 10]); required.push(vec![2 << 10 | 1]);
    finish(Finish {
        run: &run,
        level: "model_checking",
        rule: "Complete enumeration of (coefficient, scale): all |a|<=N x 19 scales and the boundary coefficient alphabet (all 39 power-of-ten boundaries +-2, every (0,f), every (10^f,f)) x 19 scales for floor, ceil, trunc, fract, neg (value and reference), abs, magnitude, eq_zero, eq_one, is_negative, is_positive and the num-traits methods is_zero, is_one, abs, signum, is_positive, is_negative; abs_sub on the small scope, the reduced alphabet squared and the subtraction overflow frontier; from_str_radix for 11 radices x all strings of length 3 over the parser alphabet plus literals. distinct_nontrivial counts distinct inputs.".into(),
        exhaustive: true,
        assumptions: vec!["oracle: the inequalities and identities of the statement evaluated in 512-bit arithmetic; magnitude = (decimal digit count of |a|) - 1 - f, 0 for every zero".into()],
        class_name: &class_name,
        required,
        replay: &replay,
    })
}
