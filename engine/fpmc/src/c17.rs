//! C17: all operand forms of an operator compute the same function.
//! Differential exploration: every macro-generated implementation is called
//! statically and compared with the canonical call op(Decimal, Decimal::from(i))
//! by value on the same operands. No numeric model is involved.

use crate::alpha::{self, Level};
use crate::big::I512;
use crate::runner::*;
use crate::spec::*;
use crate::{with_form, with_int, with_int2};
use fpdec::{CheckedAdd, CheckedDiv, CheckedMul, CheckedRem, CheckedSub, Decimal, DivRounded, MulRounded, Quantize, RoundingMode};
use serde_json::{json, Value};

#[derive(Clone, Copy, PartialEq, Eq, Debug)]
enum Op { Add, Sub, Mul, Div, Rem, CAdd, CSub, CMul, CDiv, CRem, DivR, MulR, Quant, Eq, Lt }

const OPS: [Op; 15] = [Op::Add, Op::Sub, Op::Mul, Op::Div, Op::Rem, Op::CAdd, Op::CSub, Op::CMul, Op::CDiv, Op::CRem, Op::DivR, Op::MulR, Op::Quant, Op::Eq, Op::Lt];

fn op_name(o: Op) -> &'static str {
    match o { Op::Add => "+", Op::Sub => "-", Op::Mul => "*", Op::Div => "/", Op::Rem => "%", Op::CAdd => "checked_add", Op::CSub => "checked_sub", Op::CMul => "checked_mul",
        Op::CDiv => "checked_div", Op::CRem => "checked_rem", Op::DivR => "div_rounded", Op::MulR => "mul_rounded", Op::Quant => "quantize", Op::Eq => "==", Op::Lt => "<" }
}

fn ob(f: impl FnOnce() -> bool) -> Out { match catch(f) { Ok(b) => Out::Bool(b), Err(()) => Out::Panic } }

/// Apply `op` to two operands of arbitrary (statically known) types.
macro_rules! apply {
    ($op:expr, $u:expr, $v:expr, $n:expr) => {
        match $op {
            Op::Add => out_op(|| $u + $v),
            Op::Sub => out_op(|| $u - $v),
            Op::Mul => out_op(|| $u * $v),
            Op::Div => out_op(|| $u / $v),
            Op::Rem => out_op(|| $u % $v),
            Op::CAdd => out_checked(|| CheckedAdd::checked_add($u, $v)),
            Op::CSub => out_checked(|| CheckedSub::checked_sub($u, $v)),
            Op::CMul => out_checked(|| CheckedMul::checked_mul($u, $v)),
            Op::CDiv => out_checked(|| CheckedDiv::checked_div($u, $v)),
            Op::CRem => out_checked(|| CheckedRem::checked_rem($u, $v)),
            Op::DivR => out_op(|| DivRounded::div_rounded($u, $v, $n)),
            _ => unreachable!(),
        }
    };
}

fn is_arith(o: Op) -> bool { !matches!(o, Op::MulR | Op::Quant | Op::Eq | Op::Lt) }

fn dd(op: Op, x: Decimal, y: Decimal, n: u8, form: usize) -> Out {
    match op {
        Op::MulR => with_form!(form, x, y, |u, v| out_op(|| MulRounded::mul_rounded(u, v, n))),
        Op::Quant => match form { 0 => out_op(|| x.quantize(y)), 1 => out_op(|| (&x).quantize(y)), 2 => out_op(|| x.quantize(&y)), _ => out_op(|| (&x).quantize(&y)) },
        Op::Eq => match form { 0 => ob(|| x == y), _ => ob(|| &x == &y) },
        Op::Lt => match form { 0 => ob(|| x < y), _ => ob(|| &x < &y) },
        _ => with_form!(form, x, y, |u, v| apply!(op, u, v, n)),
    }
}

/// Decimal op int
fn di(op: Op, x: Decimal, t: usize, v: i128, n: u8, form: usize) -> Out {
    with_int!(t, v, i => match op {
        Op::MulR => unreachable!(),
        Op::Quant => match form { 0 => out_op(|| x.quantize(i)), 1 => out_op(|| (&x).quantize(i)), _ => out_op(|| x.quantize(i)) },
        Op::Eq => ob(|| x == i),
        Op::Lt => ob(|| x < i),
        _ => with_form!(form, x, i, |u, w| apply!(op, u, w, n)),
    })
}

/// int op Decimal
fn id(op: Op, t: usize, v: i128, y: Decimal, n: u8, form: usize) -> Out {
    with_int!(t, v, i => match op {
        Op::MulR => unreachable!(),
        Op::Quant => match form { 0 => out_op(|| i.quantize(y)), 1 => out_op(|| (&i).quantize(y)), _ => out_op(|| i.quantize(y)) },
        Op::Eq => ob(|| i == y),
        Op::Lt => ob(|| i < y),
        _ => with_form!(form, i, y, |u, w| apply!(op, u, w, n)),
    })
}

/// int div_rounded/quantize int (same type)
fn ii(op: Op, t: usize, v: i128, w: i128, n: u8, form: usize) -> Out {
    with_int2!(t, v, w, i, j => match op {
        Op::DivR => with_form!(form, i, j, |a, b| out_op(|| DivRounded::div_rounded(a, b, n))),
        Op::Quant => out_op(|| i.quantize(j)),
        _ => unreachable!(),
    })
}

fn assign_dd(op: Op, x: Decimal, y: Decimal, by_ref: bool) -> Out {
    out_op(|| { let mut z = x; match (op, by_ref) {
        (Op::Add, false) => z += y, (Op::Add, true) => z += &y, (Op::Sub, false) => z -= y, (Op::Sub, true) => z -= &y,
        (Op::Mul, false) => z *= y, (Op::Mul, true) => z *= &y, (Op::Div, false) => z /= y, (Op::Div, true) => z /= &y,
        (Op::Rem, false) => z %= y, (Op::Rem, true) => z %= &y, _ => unreachable!() }; z })
}

fn assign_di(op: Op, x: Decimal, t: usize, v: i128, by_ref: bool) -> Out {
    with_int!(t, v, i => out_op(|| { let mut z = x; match (op, by_ref) {
        (Op::Add, false) => z += i, (Op::Add, true) => z += &i, (Op::Sub, false) => z -= i, (Op::Sub, true) => z -= &i,
        (Op::Mul, false) => z *= i, (Op::Mul, true) => z *= &i, (Op::Div, false) => z /= i, (Op::Div, true) => z /= &i,
        (Op::Rem, false) => z %= i, (Op::Rem, true) => z %= &i, _ => unreachable!() }; z }))
}

fn same_val(a: &Out, b: &Out) -> bool {
    match (a, b) {
        (Out::Val(c1, s1), Out::Val(c2, s2)) => same_value(&I512::from_i128(*c1), *s1, &I512::from_i128(*c2), *s2),
        _ => a == b,
    }
}

/// Compare an outcome with the canonical one under the rules of the property.
/// Returns None if acceptable, else the failure kind.
fn diff(op: Op, canon: &Out, got: &Out, decimal_operand_is_one: bool, strict_scale: bool) -> Option<&'static str> {
    // checked forms signal with None, operators with Panic: compared like for like by the caller
    if canon == got { return None; }
    match (canon, got) {
        (Out::Val(..), Out::Val(_, gs)) => {
            if *gs > 18 { return Some("more than 18 fractional digits"); }
            if same_val(canon, got) {
                if strict_scale { Some("different fractional digit count") } else { None }
            } else { Some("different value") }
        }
        (Out::Val(..), Out::Panic) | (Out::Val(..), Out::None) => {
            if matches!(op, Op::Mul | Op::CMul) && decimal_operand_is_one { None } else { Some("fails where the canonical form returns a value") }
        }
        (Out::Panic, Out::Val(..)) | (Out::None, Out::Val(..)) => Some("returns a value where the canonical form fails"),
        (Out::Bool(_), Out::Bool(_)) => Some("different truth value"),
        _ => Some("different failure signal"),
    }
}

fn case_int(a: i128, p: u8, t: usize, v: i128, ns: &[u8], l: &mut Local) {
    let x = dec(a, p);
    let yi = with_int!(t, v, i => Decimal::from(i));
    let tn = alpha::INT_TYPES[t];
    let min_op = v == i128::MIN;
    let x_is_one = a == alpha::pow10(p as u32);
    for &op in &OPS {
        if op == Op::MulR { continue; }
        let nvals: &[u8] = if op == Op::DivR { ns } else { &[0] };
        for &n in nvals {
            let strict = matches!(op, Op::Add | Op::Sub | Op::CAdd | Op::CSub);
            let mk = || json!({"k":"int","a":a.to_string(),"p":p,"t":t,"v":v.to_string(),"n":n});
            // position: int on the right
            let canon_r = dd(op, x, yi, n, 0);
            // position: int on the left
            let canon_l = dd(op, yi, x, n, 0);
            l.distinct += 2;
            let c = ((op as u64) << 8) | ((t as u64) << 4) | (matches!(canon_r, Out::Val(..) | Out::Bool(_)) as u64);
            if l.class(c) { l.sample(c, json!({"op":op_name(op),"decimal":[a.to_string(),p],"int":v.to_string(),"type":tn,"n":n,"canonical(Decimal op Decimal::from(int))":canon_r.show()})); }
            let nforms = if matches!(op, Op::Eq | Op::Lt) { 1 } else if op == Op::Quant { 2 } else { 4 };
            for form in 0..nforms {
                let got = di(op, x, t, v, n, form);
                l.evals += 1;
                l.outcome(fnv(got.show().as_bytes()));
                if let Some(kind) = diff(op, &canon_r, &got, x_is_one, strict) {
                    let site = format!("Decimal {} {} | {}{} | {}", op_name(op), tn, crate::forms::FORM_NAMES[form], if min_op { " | i128::MIN operand" } else { "" }, kind);
                    l.violation(site, || (format!("Decimal {} {}: canonical={} this form={} case={}", op_name(op), tn, canon_r.show(), got.show(), mk()), mk()));
                }
                let got = id(op, t, v, x, n, form);
                l.evals += 1;
                l.outcome(fnv(got.show().as_bytes()));
                if let Some(kind) = diff(op, &canon_l, &got, x_is_one, strict) {
                    let site = format!("{} {} Decimal | {}{} | {}", tn, op_name(op), crate::forms::FORM_NAMES[form], if min_op { " | i128::MIN operand" } else { "" }, kind);
                    l.violation(site, || (format!("{} {} Decimal: canonical={} this form={} case={}", tn, op_name(op), canon_l.show(), got.show(), mk()), mk()));
                }
            }
            if matches!(op, Op::Add | Op::Sub | Op::Mul | Op::Div | Op::Rem) {
                for by_ref in [false, true] {
                    let got = assign_di(op, x, t, v, by_ref);
                    l.evals += 1;
                    if let Some(kind) = diff(op, &canon_r, &got, x_is_one, strict) {
                        let site = format!("Decimal {}= {} | {}{} | {}", op_name(op), tn, if by_ref { "assign &U" } else { "assign U" }, if min_op { " | i128::MIN operand" } else { "" }, kind);
                        l.violation(site, || (format!("Decimal {}= {}: canonical={} this form={} case={}", op_name(op), tn, canon_r.show(), got.show(), mk()), mk()));
                    }
                }
            }
        }
    }
}

fn case_int_int(t: usize, v: i128, w: i128, ns: &[u8], l: &mut Local) {
    let (xv, yw) = (with_int!(t, v, i => Decimal::from(i)), with_int!(t, w, i => Decimal::from(i)));
    let tn = alpha::INT_TYPES[t];
    let min_op = v == i128::MIN || w == i128::MIN;
    for op in [Op::DivR, Op::Quant] {
        let nvals: &[u8] = if op == Op::DivR { ns } else { &[0] };
        for &n in nvals {
            // n > 18 on the int/int form is the recorded C04 finding; compared here for n <= 18
            if n > 18 { continue; }
            let mk = || json!({"k":"intint","t":t,"v":v.to_string(),"w":w.to_string(),"n":n});
            let canon = dd(op, xv, yw, n, 0);
            l.distinct += 1;
            l.class(((op as u64) << 8) | ((t as u64) << 4) | 8 | (matches!(canon, Out::Val(..)) as u64));
            let nforms = if op == Op::Quant { 1 } else { 4 };
            for form in 0..nforms {
                let got = ii(op, t, v, w, n, form);
                l.evals += 1;
                if let Some(kind) = diff(op, &canon, &got, false, false) {
                    let site = format!("{} {} {} | {}{} | {}", tn, op_name(op), tn, crate::forms::FORM_NAMES[form], if min_op { " | i128::MIN operand" } else { "" }, kind);
                    l.violation(site, || (format!("{}.{}({}): canonical={} this form={} case={}", tn, op_name(op), tn, canon.show(), got.show(), mk()), mk()));
                }
            }
        }
    }
}

fn case_dd(a: i128, p: u8, b: i128, q: u8, ns: &[u8], l: &mut Local) {
    let (x, y) = (dec(a, p), dec(b, q));
    for &op in &OPS {
        let nvals: &[u8] = if matches!(op, Op::DivR | Op::MulR) { ns } else { &[0] };
        for &n in nvals {
            let mk = || json!({"k":"dd","a":a.to_string(),"p":p,"b":b.to_string(),"q":q,"n":n});
            let canon = dd(op, x, y, n, 0);
            l.distinct += 1;
            l.class(((op as u64) << 8) | (9 << 4) | (matches!(canon, Out::Val(..) | Out::Bool(_)) as u64));
            let nforms = if matches!(op, Op::Eq | Op::Lt) { 2 } else { 4 };
            for form in 1..nforms {
                let got = dd(op, x, y, n, form);
                l.evals += 1;
                if canon != got {
                    let site = format!("Decimal {} Decimal | {} | differs from by-value form", op_name(op), crate::forms::FORM_NAMES[form]);
                    l.violation(site, || (format!("by value={} this form={} case={}", canon.show(), got.show(), mk()), mk()));
                }
            }
            if matches!(op, Op::Add | Op::Sub | Op::Mul | Op::Div | Op::Rem) {
                for by_ref in [false, true] {
                    let got = assign_dd(op, x, y, by_ref);
                    l.evals += 1;
                    if canon != got {
                        let site = format!("Decimal {}= Decimal | {} | differs from by-value form", op_name(op), if by_ref { "assign &U" } else { "assign U" });
                        l.violation(site, || (format!("by value={} this form={} case={}", canon.show(), got.show(), mk()), mk()));
                    }
                }
            }
        }
    }
}

fn class_name(c: u64) -> String {
    let op = OPS[((c >> 8) & 15) as usize];
    let t = ((c >> 4) & 15) as usize;
    let kind = if t == 9 { "Decimal,Decimal reference forms".to_string() } else if c & 8 == 8 { format!("{0},{0}", alpha::INT_TYPES[t]) } else { format!("Decimal,{} both positions", alpha::INT_TYPES[t]) };
    format!("{}/{}/{}", op_name(op), kind, if c & 1 == 1 { "canonical returns" } else { "canonical fails" })
}

pub fn replay(w: &Value) -> Vec<(String, String)> {
    let run = Run::new("C17", Tier::Quick);
    let g = |k: &str| -> i128 { w[k].as_str().unwrap().parse().unwrap() };
    let u = |k: &str| -> u64 { w[k].as_u64().unwrap_or(0) };
    let prev = RoundingMode::default();
    let ns = [u("n") as u8];
    let mut all = Vec::new();
    for mode in ALL_MODES {
        RoundingMode::set_default(mode);
        let r2 = Run::new("C17", Tier::Quick);
        r2.seq(|l| match w["k"].as_str().unwrap_or("") {
            "int" => case_int(g("a"), u("p") as u8, u("t") as usize, g("v"), &ns, l),
            "intint" => case_int_int(u("t") as usize, g("v"), g("w"), &ns, l),
            "dd" => case_dd(g("a"), u("p") as u8, g("b"), u("q") as u8, &ns, l),
            _ => {}
        });
        for (s, r) in r2.violations() { if !all.iter().any(|(s2, _): &(String, String)| *s2 == s) { all.push((s, r.detail)); } }
    }
    RoundingMode::set_default(prev);
    let _ = run;
    all
}

pub fn run(tier: Tier) -> i32 {
    let run = Run::new("C17", tier);
    let lv = if tier.thorough() { Level::Thorough } else { Level::Quick };
    let small = alpha::coeffs_small(lv);
    let scales: Vec<u8> = if tier.thorough() { (0..=18).collect() } else { vec![0, 1, 2, 9, 17, 18] };
    let ns: Vec<u8> = vec![0, 1, 9, 18, 19];
    let modes = [RoundingMode::RoundHalfEven, RoundingMode::RoundUp, RoundingMode::RoundFloor];

    // integer operand in either position, every type
    let mut items: Vec<(usize, i128)> = Vec::new();
    for t in 0..9 { for v in alpha::int_values(t, lv, &[3, 7, -7, 64, 250, 65535, 999_999_999]) { items.push((t, v)); } }
    for mode in modes {
        run.par_for(&items, || RoundingMode::set_default(mode), |&(t, v), l| {
            for &p in &scales {
                for &a in &small { case_int(a, p, t, v, &ns, l); }
                // operands that make the result sit at the representability limit
                let mut xs = Vec::new();
                crate::pairs::frontier_add(v, p, 0, &mut xs);
                crate::pairs::frontier_mul_overflow(v, &mut xs);
                xs.retain(|x| *x != i128::MIN); xs.sort(); xs.dedup();
                for a in xs { case_int(a, p, t, v, &ns, l); }
            }
            let ivals = alpha::int_values(t, Level::Quick, &[3, 7, -7, 2, 6]);
            for &w in &ivals { case_int_int(t, v, w, &ns, l); }
        });
    }
    run.stage("integer operands: 9 types x 2 positions x 4 reference forms x 14 operations (+ op-assign)", json!({"int_values":items.len(),"decimal_coefficients":small.len(),"scales":scales.len(),"modes":3,"n":ns}));

    // Decimal/Decimal reference forms and op-assign
    let mut dd_items: Vec<(i128, u8)> = Vec::new();
    for &b in &small { for &q in &scales { dd_items.push((b, q)); } }
    for mode in modes {
        run.par_for(&dd_items, || RoundingMode::set_default(mode), |&(b, q), l| {
            for &p in &[0u8, 1, 9, 18] { for &a in &small { case_dd(a, p, b, q, &ns, l); } }
        });
    }
    run.stage("Decimal/Decimal reference forms", json!({"coefficients":small.len(),"modes":3}));

    let mut required: Vec<Vec<u64>> = Vec::new();
    for (oi, &op) in OPS.iter().enumerate() {
        for t in 0..9u64 {
            if op == Op::MulR { continue; }
            for ok in [0u64, 1] {
                // comparison operators never fail; zero-divisor failures exist for every type
                if ok == 0 && matches!(op, Op::Eq | Op::Lt) { continue; }
                required.push(vec![((oi as u64) << 8) | (t << 4) | ok]);
            }
        }
        required.push(vec![((oi as u64) << 8) | (9 << 4) | 1]);
    }
    for t in 0..9u64 { required.push(vec![((Op::DivR as u64) << 8) | (t << 4) | 8 | 1]); required.push(vec![((Op::Quant as u64) << 8) | (t << 4) | 8 | 1]); }

    finish(Finish {
        run: &run,
        level: "model_checking",
        rule: "Complete enumeration of (operation, implementation form, operands): each of the trait implementations stamped out by the repository's macros (9 integer types x 2 positions x 4 reference forms x {+,-,*,/,%,checked_*,div_rounded,quantize,==,<}, op-assign by value and by reference, int/int div_rounded and quantize, the 4 Decimal/Decimal forms of all 15 operations) is called statically on every operand tuple of: reduced boundary alphabet x scales x each type's {MIN, MIN+1, -12..12, 10^j, 10^j+-1, 5*10^j, MAX-1, MAX} plus the add/mul overflow frontier solved for the Decimal operand; n in {0,1,9,18,19}; 3 thread-default modes. Oracle: the canonical by-value call op(Decimal, Decimal::from(i)). distinct_nontrivial counts distinct (operation, position, tuple, n, mode).".into(),
        exhaustive: true,
        assumptions: vec![
            "differential oracle: op(Decimal, Decimal::from(i)) by value; values compared exactly (for + and - also the fractional digit count), failure signals like for like".into(),
            "the one stated exception (Decimal operand equal to one: Decimal/Decimal multiplication may succeed where the integer form overflows) is accepted; int/int div_rounded with n>18 is the recorded C04 finding and is not re-compared here".into(),
        ],
        class_name: &class_name,
        required,
        replay: &replay,
    })
}
