//! C12: Decimal -> f64 / f32 conversion is correctly rounded.

use crate::alpha::{self, Level};
use crate::big::U512;
use crate::c07::canonical;
use crate::runner::*;
use fpdec::Decimal;
use fpdec_core::verif_cov;
use serde_json::{json, Value};

#[derive(Clone, Copy, PartialEq, Eq, Debug)]
pub enum Rc { Exact, Below, TieDown, TieUp, Above }

/// Correctly rounded (nearest, ties to even) float of |a| / 10^f with P
/// significand bits; returns (significand m in [2^(P-1), 2^P), exponent e,
/// rounding class) so that the result is m * 2^e. None for zero.
pub fn round_to_float(a: u128, f: u8, p: u32) -> Option<(u64, i32, Rc)> {
    if a == 0 { return None; }
    let num = U512::from_u128(a);
    let den = U512::pow10(f as u32);
    // first guess of e: bits(num) - bits(den) - p
    let mut e: i32 = num.bits() as i32 - den.bits() as i32 - p as i32;
    loop {
        // q = floor(num * 2^-e / den)
        let (n2, d2) = if e >= 0 { (num, den.shl(e as u32)) } else { (num.shl((-e) as u32), den) };
        let (q, r) = n2.divrem(&d2);
        let qb = q.bits();
        if qb > p { e += 1; continue; }
        if qb < p { e -= 1; continue; }
        let mut m = q.low_u128() as u64;
        let twice = r.shl(1);
        let rc = if r.is_zero() { Rc::Exact } else {
            match twice.cmp(&d2) {
                std::cmp::Ordering::Less => Rc::Below,
                std::cmp::Ordering::Greater => Rc::Above,
                std::cmp::Ordering::Equal => if m & 1 == 1 { Rc::TieUp } else { Rc::TieDown },
            }
        };
        if matches!(rc, Rc::Above | Rc::TieUp) { m += 1; }
        let mut e2 = e;
        if m == 1u64 << p { m >>= 1; e2 += 1; }
        return Some((m, e2, rc));
    }
}

pub fn f64_bits(neg: bool, r: Option<(u64, i32, Rc)>) -> u64 {
    match r {
        None => 0, // zero maps to +0.0
        Some((m, e, _)) => ((neg as u64) << 63) | (((e + 52 + 1023) as u64) << 52) | (m & ((1u64 << 52) - 1)),
    }
}

pub fn f32_bits(neg: bool, r: Option<(u64, i32, Rc)>) -> u32 {
    match r {
        None => 0,
        Some((m, e, _)) => ((neg as u32) << 31) | (((e + 23 + 127) as u32) << 23) | (m as u32 & ((1u32 << 23) - 1)),
    }
}

// class: ty(1) | rc(3) | scale(5) | neg(1)
fn code(ty: u64, rc: Option<Rc>, f: u8, neg: bool) -> u64 {
    (ty << 9) | ((match rc { None => 5, Some(r) => r as u64 }) << 6) | ((f as u64) << 1) | neg as u64
}
fn class_name(c: u64) -> String {
    format!("{}/{}/scale {}/{}", if (c >> 9) & 1 == 0 { "f64" } else { "f32" }, ["exact", "below midpoint", "tie -> even (down)", "tie -> even (up)", "above midpoint", "zero"][((c >> 6) & 7) as usize], (c >> 1) & 31, if c & 1 == 1 { "negative" } else { "nonneg" })
}

thread_local! {
    /// index of the thread-default rounding mode set by the worker of the "foreign mode" stage (255 = untouched)
    static FOREIGN_MODE: std::cell::Cell<u8> = const { std::cell::Cell::new(255) };
}

pub fn case(a: i128, f: u8, l: &mut Local) {
    let d = Decimal::new_raw(a, f);
    let fm = FOREIGN_MODE.with(|c| c.get());
    let tag = if fm == 255 { String::new() } else { format!(" [thread default {}]", crate::spec::mode_name(crate::spec::ALL_MODES[fm as usize])) };
    let mk = || json!({"a": a.to_string(), "f": f, "thread_mode": if fm == 255 { Value::Null } else { json!(fm) }});
    let text = canonical(a, f);
    // f64
    let r64 = round_to_float(a.unsigned_abs(), f, 53);
    let want64 = f64_bits(a < 0, r64);
    let got64 = catch(|| f64::from(d));
    l.evals += 1;
    let c = code(0, r64.map(|x| x.2), f, a < 0);
    if l.class(c) { l.sample(c, json!({"coeff": a.to_string(), "scale": f, "f64": f64::from_bits(want64)})); }
    // cross-check of the oracle itself against Rust's correctly rounded parser (machinery check)
    let parsed: f64 = text.parse().unwrap();
    let parsed_bits = if a == 0 { 0 } else { parsed.to_bits() };
    if parsed_bits != want64 {
        l.violation("oracle | f64 model disagrees with str::parse::<f64> | machinery".into(), || (format!("{}: model {:#x} parse {:#x}", text, want64, parsed_bits), mk()));
    }
    let cls = |rc: Option<Rc>| match rc { Some(Rc::TieDown) | Some(Rc::TieUp) => "exact tie", Some(Rc::Exact) => "exactly representable", Some(_) => "inexact", None => "zero" };
    let shape = if f == 0 { "scale 0 (integer cast path)" } else if a.unsigned_abs() >> 64 != 0 { "coefficient >= 2^64" } else { "coefficient < 2^64" };
    match got64 {
        Ok(g) => { l.outcome(g.to_bits()); if g.to_bits() != want64 {
            l.violation(format!("f64::from(Decimal){} | {} / {} | not the nearest float", tag, shape, cls(r64.map(|x| x.2))), || (format!("f64::from(({},{})) = {:e} ({:#x}), nearest {:e} ({:#x})", a, f, g, g.to_bits(), f64::from_bits(want64), want64), mk()));
        }}
        Err(()) => l.violation(format!("f64::from(Decimal){} | {} | panicked", tag, shape), || (format!("({},{})", a, f), mk())),
    }
    // f32
    let r32 = round_to_float(a.unsigned_abs(), f, 24);
    let want32 = f32_bits(a < 0, r32);
    let got32 = catch(|| f32::from(d));
    l.evals += 1;
    l.distinct += 1;
    let c = code(1, r32.map(|x| x.2), f, a < 0);
    if l.class(c) { l.sample(c, json!({"coeff": a.to_string(), "scale": f, "f32": f32::from_bits(want32)})); }
    let parsed: f32 = text.parse().unwrap();
    let parsed_bits = if a == 0 { 0 } else { parsed.to_bits() };
    if parsed_bits != want32 {
        l.violation("oracle | f32 model disagrees with str::parse::<f32> | machinery".into(), || (format!("{}: model {:#x} parse {:#x}", text, want32, parsed_bits), mk()));
    }
    match got32 {
        Ok(g) => { if g.to_bits() != want32 {
            l.violation(format!("f32::from(Decimal){} | {} / {} | not the nearest float", tag, shape, cls(r32.map(|x| x.2))), || (format!("f32::from(({},{})) = {:e} ({:#x}), nearest {:e} ({:#x})", a, f, g, g.to_bits(), f32::from_bits(want32), want32), mk()));
        }}
        Err(()) => l.violation(format!("f32::from(Decimal){} | {} | panicked", tag, shape), || (format!("({},{})", a, f), mk())),
    }
}

pub fn replay(w: &Value) -> Vec<(String, String)> {
    let run = Run::new("C12", Tier::Quick);
    let prev = fpdec::RoundingMode::default();
    if let Some(m) = w["thread_mode"].as_u64() { FOREIGN_MODE.with(|c| c.set(m as u8)); fpdec::RoundingMode::set_default(crate::spec::ALL_MODES[m as usize]); }
    run.seq(|l| case(w["a"].as_str().unwrap().parse().unwrap(), w["f"].as_u64().unwrap() as u8, l));
    FOREIGN_MODE.with(|c| c.set(255));
    fpdec::RoundingMode::set_default(prev);
    run.violations().into_iter().map(|(s, r)| (s, r.detail)).collect()
}

fn significands(p: u32, th: bool) -> Vec<u64> {
    let top = 1u64 << (p - 1);
    let mut v = vec![top, top + 1, top + 2, (top << 1) - 1, (top << 1) - 2, top | (top >> 1), top + (top / 3), top + (top / 3) * 2, (top << 1) - 1 - (top / 7)];
    // all with <= 1 (quick) / <= 2 (thorough) bits set below the leading bit
    for i in 0..(p - 1) {
        v.push(top | (1u64 << i));
        if th { for j in 0..i { v.push(top | (1u64 << i) | (1u64 << j)); } }
        v.push(((top << 1) - 1) & !(1u64 << i));
    }
    v.sort(); v.dedup(); v
}

pub fn run(tier: Tier) -> i32 {
    let run = Run::new("C12", tier);
    let th = tier.thorough();
    verif_cov::reset();
    // S1: complete small scope
    let n: i128 = if th { 25_000_000 } else { 600_000 };
    run.par_range(-n, n, || {}, |a, l| { for f in 0..=18u8 { case(a, f, l); } });
    run.stage("S1 small scope", json!({"|a|<=": n, "scales": 19}));
    // S2: alphabet
    let k = alpha::coeffs(2, 50, if th { Level::Thorough } else { Level::Mid });
    run.par_for(&k, || {}, |&a, l| { if a.abs() > n { for f in 0..=18u8 { case(a, f, l); } } });
    run.stage("S2 coefficient alphabet", json!({"coefficients": k.len()}));
    // S3: float midpoints: for every scale, every reachable binary exponent, every significand of the alphabet:
    // mu = (2m+1) * 2^(E-1); coefficients floor(mu * 10^f) + {-1,0,1,2}
    let mut items: Vec<(u32, u8, i32)> = Vec::new();
    for p in [53u32, 24] { for f in 0..=18u8 { for e in -130i32..=110 { items.push((p, f, e)); } } }
    let sig53 = significands(53, th);
    let sig24 = significands(24, true);
    run.par_for(&items, || {}, |&(p, f, e), l| {
        let sigs = if p == 53 { &sig53 } else { &sig24 };
        let ten = U512::pow10(f as u32);
        for &m in sigs.iter() {
            // mu * 10^f = (2m+1) * 10^f * 2^(e-1)
            let odd = U512::from_u64(m).shl(1).add(&U512::ONE).mul(&ten);
            let sh = e - 1;
            let v = if sh >= 0 { if odd.bits() + sh as u32 > 130 { continue; } odd.shl(sh as u32) } else { odd.shr((-sh) as u32) };
            if v.bits() > 127 { continue; }
            if v.is_zero() && sh < -70 { continue; }
            let base = v.low_u128() as i128;
            for dl in [-1i128, 0, 1, 2] {
                let a = base + dl;
                if a > 0 { case(a, f, l); case(-a, f, l); }
            }
            // the float itself and its neighbours (power-of-two boundaries where the ulp halves)
            let fl = U512::from_u64(m).mul(&ten);
            let fv = if e >= 0 { if fl.bits() + e as u32 > 130 { continue; } fl.shl(e as u32) } else { fl.shr((-e) as u32) };
            if fv.bits() <= 127 && !fv.is_zero() { let b = fv.low_u128() as i128; for dl in [-1i128, 0, 1] { if b + dl > 0 { case(b + dl, f, l); } } }
        }
    });
    run.stage("S3 float midpoints", json!({"types": ["f64", "f32"], "scales": 19, "binary_exponents": "-130..=110 (those in reach of the coefficient range)", "significands_f64": sig53.len(), "significands_f32": sig24.len(), "neighbours": "floor(mu*10^f)+{-1,0,1,2}"}));
    // the conversion rounds to nearest, ties to even, WHATEVER the thread's default rounding mode is: a reduced midpoint
    // family and a small scope again on workers whose default is each of the seven other modes (a shared rounding
    // helper called with "use the thread default" would follow it; compare seeded change C13-m6)
    {
        let mut it2: Vec<(u32, u8, i32)> = Vec::new();
        for p in [53u32, 24] { for f in [0u8, 1, 2, 9, 17, 18] { for e in (-60i32..=60).step_by(if th { 1 } else { 5 }) { it2.push((p, f, e)); } } }
        for (mi, mode) in crate::spec::ALL_MODES.iter().enumerate() {
            if *mode == fpdec::RoundingMode::RoundHalfEven { continue; }
            run.par_for(&it2, || { fpdec::RoundingMode::set_default(*mode); FOREIGN_MODE.with(|c| c.set(mi as u8)); }, |&(p, f, e), l| {
                let sigs = if p == 53 { &sig53 } else { &sig24 };
                let ten = U512::pow10(f as u32);
                for &m in sigs.iter().step_by(if th { 1 } else { 4 }) {
                    let odd = U512::from_u64(m).shl(1).add(&U512::ONE).mul(&ten);
                    let sh = e - 1;
                    let v = if sh >= 0 { if odd.bits() + sh as u32 > 130 { continue; } odd.shl(sh as u32) } else { odd.shr((-sh) as u32) };
                    if v.bits() > 127 || v.is_zero() { continue; }
                    let base = v.low_u128() as i128;
                    for dl in [-1i128, 0, 1] { let a = base + dl; if a > 0 { case(a, f, l); case(-a, f, l); } }
                }
            });
            let small: Vec<i128> = (-300..=300).collect();
            run.par_for(&small, || { fpdec::RoundingMode::set_default(*mode); FOREIGN_MODE.with(|c| c.set(mi as u8)); }, |&a, l| { for f in 0..=18u8 { case(a, f, l); } });
        }
        run.stage("midpoints and small scope under the seven other thread-default modes", json!({"items": it2.len(), "modes": 7}));
    }

    let names = [(20usize, "from_decimal: adj=0"), (21, "from_decimal: adj=1"), (22, "from_decimal: rounded up"), (23, "from_decimal: rounding carries into the exponent")];
    let mut hooks = serde_json::Map::new();
    for (i, nme) in names { hooks.insert(nme.to_string(), json!(verif_cov::get(i))); }
    run.set_extra("branch_hits", Value::Object(hooks));

    let mut required: Vec<Vec<u64>> = Vec::new();
    for ty in 0..2u64 { for f in 0..=18u8 { for neg in [false, true] {
        for rc in [Rc::Below, Rc::Above, Rc::Exact] { required.push(vec![code(ty, Some(rc), f, neg)]); }
        // exact ties exist only where the midpoint is a decimal with <= f digits
        required.push(vec![code(ty, Some(Rc::TieDown), f, neg), code(ty, Some(Rc::TieUp), f, neg)]);
    }}
        required.push(vec![code(ty, None, 0, false)]);
    }
    finish(Finish {
        run: &run,
        level: "model_checking",
        rule: "Complete enumeration of (coefficient, scale): S1 all |a|<=N x 19 scales; S2 boundary coefficient alphabet x 19 scales; S3 float midpoints constructed from the result side: for f64 and f32, every scale, every binary exponent in reach, every significand of the significand alphabet (2^(P-1), +1, +2, 2^P-1, 2^P-2, 0b1.1, 0x1555.., 0x1AAA.., one (f64 thorough, f32: two) extra bits, all-ones minus one bit): coefficients floor(mu*10^f)+{-1,0,1,2} around the midpoint mu=(2m+1)*2^(E-1) (exact ties where mu*10^f is an integer) and the floats themselves +-1 unit. Both target types per case. distinct_nontrivial counts distinct (a,f).".into(),
        exhaustive: true,
        assumptions: vec![
            "oracle: exact scaled-integer round-to-nearest-even in 512-bit arithmetic, bit patterns compared; the oracle itself is cross-checked on every case against Rust's correctly rounded str::parse::<f64/f32> of the canonical text".into(),
        ],
        class_name: &class_name,
        required,
        replay: &replay,
    })
}
