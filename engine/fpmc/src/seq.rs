//! Operation-sequence exploration: breadth-first search over the Decimals
//! REACHABLE from a seed set by chaining the public operations (results feed
//! back as operands), so that representations that only arise as results
//! (trailing zeros, (0, f), values produced by rounding, by normalising
//! division, by remainder ...) are used as operands "from non-initial states".
//! Every transition of the operations under check is compared with the
//! reference model; states are deduplicated on the exact (coefficient, scale).

use crate::c05::failure_kind;
use crate::model;
use crate::runner::*;
use crate::spec::*;
use fpdec::{CheckedAdd, CheckedDiv, CheckedMul, CheckedRem, CheckedSub, Decimal, Round, RoundingMode};
use serde_json::{json, Value};
use std::collections::HashSet;

#[derive(Clone, Copy, PartialEq, Eq, Debug)]
pub enum SOp { Add, Sub, Mul, Div, Rem, Round }

pub fn seeds() -> Vec<(i128, u8)> {
    let m = i128::MAX;
    vec![(0, 0), (0, 3), (1, 0), (-1, 0), (10, 1), (1, 1), (-1, 1), (5, 1), (15, 1), (25, 1), (-25, 1), (3, 0), (7, 0), (-7, 0), (2, 0), (10, 0), (1, 18), (-1, 18), (5, 18),
        (999_999_999_999_999_999, 18), (1_000_000_000_000_000_000, 18), (1_000_000_000_000_000_001, 18), (123456789, 4), (-987654321, 9), (10i128.pow(19), 0), (10i128.pow(37), 0), (m, 0), (-m, 0),
        (m, 18), (m / 2, 9), (m / 10, 1), (m / 10 + 1, 0), ((1 << 64) + 1, 10), (-(1 << 64), 0), (1 << 126, 18), (3_333_333_333_333_333_333, 18), (142857142857142857, 18), (2, 18), (m - 1, 17)]
}

fn apply(op: SOp, x: (i128, u8), y: (i128, u8), n: i8) -> (Out, Out) {
    let (a, b) = (dec(x.0, x.1), dec(y.0, y.1));
    match op {
        SOp::Add => (out_op(|| a + b), out_checked(|| a.checked_add(b))),
        SOp::Sub => (out_op(|| a - b), out_checked(|| a.checked_sub(b))),
        SOp::Mul => (out_op(|| a * b), out_checked(|| a.checked_mul(b))),
        SOp::Div => (out_op(|| a / b), out_checked(|| a.checked_div(b))),
        SOp::Rem => (out_op(|| a % b), out_checked(|| a.checked_rem(b))),
        SOp::Round => (out_op(|| a.round(n)), out_checked(|| a.checked_round(n))),
    }
}

fn expect(op: SOp, x: (i128, u8), y: (i128, u8), n: i8, mode: RoundingMode) -> (Expect, Expect) {
    match op {
        SOp::Add => { let e = model::add_sub(x.0, x.1, y.0, y.1, false).0; (e.clone(), e) }
        SOp::Sub => { let e = model::add_sub(x.0, x.1, y.0, y.1, true).0; (e.clone(), e) }
        SOp::Mul => (model::mul(x.0, x.1, y.0, y.1, mode).0, model::checked_mul(x.0, x.1, y.0, y.1)),
        SOp::Div => { let e = model::div(x.0, x.1, y.0, y.1, mode).0; (e.clone(), e) }
        SOp::Rem => { let e = model::rem(x.0, x.1, y.0, y.1).0; (e.clone(), e) }
        SOp::Round => { let e = model::round(x.0, x.1, n, mode).0; (e.clone(), e) }
    }
}

pub fn op_name(op: SOp) -> &'static str { match op { SOp::Add => "+", SOp::Sub => "-", SOp::Mul => "*", SOp::Div => "/", SOp::Rem => "%", SOp::Round => "round" } }

pub fn check_transition(op: SOp, x: (i128, u8), y: (i128, u8), n: i8, mode: RoundingMode, l: &mut Local) -> Out {
    let (g_op, g_chk) = apply(op, x, y, n);
    let (e_op, e_chk) = expect(op, x, y, n, mode);
    l.evals += 2;
    let mk = || json!({"k": "seq", "op": op_name(op), "x": [x.0.to_string(), x.1], "y": [y.0.to_string(), y.1], "n": n, "mode": mode_name(mode)});
    for (name, e, g, fail) in [("operator", &e_op, &g_op, Out::Panic), ("checked", &e_chk, &g_chk, Out::None)] {
        if !accepts(e, g, &fail) {
            l.violation(format!("sequence exploration: {} {} | reachable operands | {}", op_name(op), name, failure_kind(e, g, &fail)), || (format!("({},{}) {} ({},{}) n={} mode={}: model {} impl {}", x.0, x.1, op_name(op), y.0, y.1, n, mode_name(mode), show_expect(e), g.show()), mk()));
        }
    }
    g_op
}

pub fn replay_case(w: &Value, l: &mut Local) {
    let op = match w["op"].as_str().unwrap_or("") { "+" => SOp::Add, "-" => SOp::Sub, "*" => SOp::Mul, "/" => SOp::Div, "%" => SOp::Rem, _ => SOp::Round };
    let p = |k: &str| -> (i128, u8) { (w[k][0].as_str().unwrap().parse().unwrap(), w[k][1].as_u64().unwrap() as u8) };
    let mode = mode_from_name(w["mode"].as_str().unwrap_or("HalfEven")).unwrap_or(RoundingMode::RoundHalfEven);
    let prev = RoundingMode::default();
    RoundingMode::set_default(mode);
    check_transition(op, p("x"), p("y"), w["n"].as_i64().unwrap_or(0) as i8, mode, l);
    RoundingMode::set_default(prev);
}

/// Breadth-first exploration to `depth`; `checked` are the operations whose
/// transitions are compared with the model in this run (the other operations
/// only generate states). Returns (states, transitions).
pub fn explore(run: &Run, checked: &[SOp], depth: usize, cap: usize, modes: &[RoundingMode]) -> (u64, u64) {
    let all_ops = [SOp::Add, SOp::Sub, SOp::Mul, SOp::Div, SOp::Rem];
    let rounds: [i8; 5] = [-2, 0, 1, 9, 17];
    let s0 = seeds();
    let mut total_states = 0u64;
    let mut total_trans = 0u64;
    for &mode in modes {
        let mut seen: HashSet<(i128, u8)> = s0.iter().copied().collect();
        let mut frontier: Vec<(i128, u8)> = s0.clone();
        for d in 1..=depth {
            // partners: the seeds plus a deterministic sample of everything reached so far
            let mut partners: Vec<(i128, u8)> = s0.clone();
            let mut sorted: Vec<(i128, u8)> = seen.iter().copied().collect();
            sorted.sort();
            let step = (sorted.len() / 60).max(1);
            partners.extend(sorted.iter().step_by(step).copied());
            partners.sort(); partners.dedup();
            let new_states = std::sync::Mutex::new(Vec::<(i128, u8)>::new());
            let trans = std::sync::atomic::AtomicU64::new(0);
            let last = d == depth;
            run.par_for(&frontier, || RoundingMode::set_default(mode), |&x, l| {
                let mut local_new = Vec::new();
                let mut t = 0u64;
                for &y in &partners {
                    for &op in &all_ops {
                        for (xx, yy) in [(x, y), (y, x)] {
                            let out = if checked.contains(&op) { check_transition(op, xx, yy, 0, mode, l) } else if !last { apply(op, xx, yy, 0).0 } else { continue };
                            t += 1;
                            if let Out::Val(c, s) = out { if c != i128::MIN && s <= 18 { local_new.push((c, s)); } }
                        }
                    }
                }
                for &n in &rounds {
                    let out = if checked.contains(&SOp::Round) { check_transition(SOp::Round, x, (0, 0), n, mode, l) } else if !last { apply(SOp::Round, x, (0, 0), n).0 } else { continue };
                    t += 1;
                    if let Out::Val(c, s) = out { if c != i128::MIN && s <= 18 { local_new.push((c, s)); } }
                }
                l.distinct += 1;
                trans.fetch_add(t, std::sync::atomic::Ordering::Relaxed);
                new_states.lock().unwrap().extend(local_new);
            });
            total_trans += trans.load(std::sync::atomic::Ordering::Relaxed);
            let mut next: Vec<(i128, u8)> = new_states.into_inner().unwrap();
            next.sort(); next.dedup();
            next.retain(|s| !seen.contains(s));
            // cap deterministically (keep a spread over the sorted order)
            if next.len() > cap { let st = next.len() / cap + 1; next = next.into_iter().step_by(st).collect(); }
            for s in &next { seen.insert(*s); }
            frontier = next;
            if frontier.is_empty() { break; }
        }
        total_states += seen.len() as u64;
    }
    (total_states, total_trans)
}
