//! C18: the Dec! macro and runtime parsing agree on every literal.
//!
//! Program exploration: all literal programs `Dec!(<lit>)` of a bounded
//! grammar are written into a generated crate; one file holds the invocations
//! that must compile (the binary prints the constants, compared here with
//! from_str of the same text), one file holds the invocations that must EACH
//! fail to compile (decided by `cargo check --message-format=json`: rustc
//! reports one error per failing invocation with its line).

use crate::runner::*;
use fpdec::Decimal;
use serde_json::{json, Value};
use std::collections::{BTreeMap, BTreeSet};
use std::process::Command;
use std::str::FromStr;

fn repo() -> String { std::env::var("VERIF_REPO").unwrap_or_else(|_| "/repo".into()) }
fn gen_dir() -> String { format!("{}/gen/c18", std::env::var("VERIF_OUT").unwrap_or_else(|_| "/verif".into())) }
fn target_dir() -> String { std::env::var("VERIF_C18_TARGET").unwrap_or_else(|_| format!("{}/target/c18", std::env::var("VERIF_OUT").unwrap_or_else(|_| "/verif".into()))) }

pub fn literals(th: bool) -> Vec<String> {
    let m = i128::MAX;
    let mut ints: Vec<String> = vec!["0", "00", "1", "7", "10", "123", "007", "1234567890123456789", "12345678901234567890", "99999999999999999999999999999999999999",
        "100000000000000000000000000000000000000", "999999999999999999999999999999999999999", "1000000000000000000000000000000000000000",
        "170141183460469231731687303715884105727", "170141183460469231731687303715884105728", "340282366920938463463374607431768211455", "340282366920938463463374607431768211456",
        "440282366920938463463374607431768211456", "510423550381407695195061911147652317183", "1234567890123456789012345678901234567890"].into_iter().map(String::from).collect();
    let ks: Vec<u32> = if th { (1..=38).collect() } else { vec![1, 2, 17, 18, 19, 20, 37, 38] };
    for k in ks { let t = m / 10i128.pow(k); ints.push(t.to_string()); ints.push((t + 1).to_string()); }
    let fracs: Vec<String> = {
        let mut v: Vec<String> = vec!["", ".", ".0", ".5", ".50", ".05"].into_iter().map(String::from).collect();
        for n in [17usize, 18, 19, 20] { v.push(format!(".{}", "123456789012345678901234567890"[..n].to_string())); v.push(format!(".{}", "0".repeat(n))); }
        v.push(format!(".{}1", "0".repeat(18)));
        v.push(format!(".{}1", "0".repeat(17)));
        if th { v.push(format!(".{}1", "0".repeat(39))); v.push(".999999999999999999".into()); v.push(".9999999999999999999".into()); }
        v
    };
    let mut exps: Vec<String> = vec!["", "e0", "e1", "E1", "e+1", "e-1", "e17", "e18", "e19", "e-17", "e-18", "e-19", "e38", "e39", "e40", "e-40", "e005", "e00", "e-0", "E+38", "e21", "e100", "e-100"].into_iter().map(String::from).collect();
    if th { for e in 2..=40 { exps.push(format!("e{}", e)); exps.push(format!("e-{}", e)); } exps.sort(); exps.dedup(); }
    let mut out = BTreeSet::new();
    for sign in ["", "-", "+"] { for i in &ints { for f in &fracs { for e in &exps {
        // a trailing '.' followed by an exponent is not one literal token for rustc's lexer
        if f == "." && !e.is_empty() { continue; }
        if !th {
            // quick: thin the four-way product deterministically (2 of 3 of the long x fraction x exponent combinations)
            let h = fnv(format!("{}{}{}", i, f, e).as_bytes());
            if !(i.len() <= 3 || f.is_empty() || e.is_empty() || h % 3 != 0) { continue; }
        }
        out.insert(format!("{}{}{}{}", sign, i, f, e));
    }}}}
    // redundant zeros: long runs of leading zeros in the integer part and in the exponent, and
    // 0.000..0ddd mantissas lifted back by a positive exponent (always included, also in the quick tier)
    for sign in ["", "-", "+"] { for z in [20usize, 30, 45, 60] {
        let zs = "0".repeat(z);
        for d in ["1", "12345", "123456789012345678", "170141183460469231731687303715884105727"] {
            out.insert(format!("{}{}{}", sign, zs, d));
            out.insert(format!("{}{}{}.5", sign, zs, d));
            out.insert(format!("{}{}{}.{}", sign, zs, d, zs));
            for k in [0usize, 5, 18, 19] {
                out.insert(format!("{}0.{}{}e{}", sign, zs, d, z + k));
                out.insert(format!("{}0.{}{}e+{}", sign, zs, d, z + d.len() + k));
                out.insert(format!("{}{}e{}{}", sign, d, zs, k));
                out.insert(format!("{}{}.5e-{}{}", sign, d, zs, k));
            }
        }
    }}
    // exponents next to the points where a truncating cast wraps (u8, u16, i32, u32, u64): a wrapped exponent looks small
    for sign in ["", "-"] { for body in ["1", "7.25", "0.5", "0", "123456789012345678"] {
        for e in ["e256", "e257", "e-256", "e65536", "e2147483648", "e4294967296", "e4294967297", "e4294967300", "e4294967334", "e-4294967296", "e-4294967300", "e18446744073709551616", "e18446744073709551620", "e-18446744073709551616"] {
            out.insert(format!("{}{}{}", sign, body, e));
        }
    }}
    // lexer-valid, parser-invalid
    for s in ["1_000", "0x1F", "0b11", "0o7", "1_0.5", "-0x10"] { out.insert(s.to_string()); }
    out.into_iter().collect()
}

fn write_crate(accept: &[String], reject: &[String]) -> std::io::Result<()> {
    let g = gen_dir();
    std::fs::create_dir_all(format!("{}/src/bin", g))?;
    std::fs::write(format!("{}/Cargo.toml", g), format!("[package]\nname = \"c18gen\"\nversion = \"0.0.0\"\nedition = \"2021\"\n\n[dependencies]\nfpdec = {{ path = \"{}\" }}\n\n[workspace]\n", repo()))?;
    // accept: line k+3 holds literal k
    let mut a = String::from("use fpdec::{Dec, Decimal};\nfn p(k: usize, d: Decimal) { println!(\"{} {} {}\", k, d.coefficient(), d.n_frac_digits()); }\nfn main() {\n");
    for (k, lit) in accept.iter().enumerate() { a.push_str(&format!("    p({}, Dec!({}));\n", k, lit)); }
    a.push_str("}\n");
    std::fs::write(format!("{}/src/bin/accept.rs", g), a)?;
    // reject: line k+2 holds literal k
    let mut r = String::from("#![allow(unused)]\nuse fpdec::{Dec, Decimal};\n");
    for (k, lit) in reject.iter().enumerate() { r.push_str(&format!("pub const R{}: Decimal = Dec!({});\n", k, lit)); }
    r.push_str("fn main() {}\n");
    let _ = std::fs::remove_file(format!("{}/src/lib.rs", g));
    std::fs::write(format!("{}/src/bin/reject.rs", g), r)?;
    Ok(())
}

/// Run cargo with JSON messages; returns (success, error lines per file name).
fn cargo(args: &[&str]) -> (bool, BTreeMap<String, BTreeSet<usize>>, String) {
    let out = Command::new("cargo").args(args).arg("--offline").arg("--message-format=json").current_dir(gen_dir())
        .env("CARGO_TARGET_DIR", target_dir()).env("CARGO_NET_OFFLINE", "true").output().expect("run cargo");
    let mut errs: BTreeMap<String, BTreeSet<usize>> = BTreeMap::new();
    for line in String::from_utf8_lossy(&out.stdout).lines() {
        if let Ok(v) = serde_json::from_str::<Value>(line) {
            if v["reason"] == "compiler-message" && v["message"]["level"] == "error" {
                if let Some(spans) = v["message"]["spans"].as_array() {
                    for sp in spans {
                        if sp["is_primary"].as_bool().unwrap_or(false) {
                            let file = sp["file_name"].as_str().unwrap_or("").to_string();
                            errs.entry(file).or_default().insert(sp["line_start"].as_u64().unwrap_or(0) as usize);
                        }
                    }
                }
            }
        }
    }
    (out.status.success(), errs, String::from_utf8_lossy(&out.stderr).to_string())
}

fn lit_class(lit: &str) -> u64 {
    let has_frac = lit.contains('.');
    let has_exp = lit.contains('e') || lit.contains('E');
    let sign = if lit.starts_with('-') { 1 } else if lit.starts_with('+') { 2 } else { 0 };
    ((has_frac as u64) << 3) | ((has_exp as u64) << 2) | sign
}

fn class_name(c: u64) -> String {
    format!("{}/{}/{}/{}", if (c >> 4) & 1 == 1 { "from_str accepts" } else { "from_str rejects" }, if (c >> 3) & 1 == 1 { "fraction" } else { "no fraction" }, if (c >> 2) & 1 == 1 { "exponent" } else { "no exponent" }, ["no sign", "-", "+", "?"][(c & 3) as usize])
}

fn explore(lits: &[String], l: &mut Local) -> Result<(), String> {
    let mut accept: Vec<String> = Vec::new();
    let mut reject: Vec<String> = Vec::new();
    let mut want: Vec<(i128, u8)> = Vec::new();
    for lit in lits {
        let c = match Decimal::from_str(lit) { Ok(d) => { accept.push(lit.clone()); want.push((d.coefficient(), d.n_frac_digits())); 1u64 << 4 } Err(_) => { reject.push(lit.clone()); 0 } } | lit_class(lit);
        if l.class(c) { l.sample(c, json!({"program": format!("Dec!({})", lit), "from_str": format!("{:?}", Decimal::from_str(lit).map(|d| (d.coefficient(), d.n_frac_digits())))})); }
        l.distinct += 1;
    }
    write_crate(&accept, &reject).map_err(|e| format!("write generated crate: {}", e))?;
    // (1) reject file: every line must produce an error
    let (_ok, errs, stderr) = cargo(&["check", "--bin", "reject"]);
    let lib_errs = errs.get("src/bin/reject.rs").cloned().unwrap_or_default();
    if reject.len() > 0 && lib_errs.is_empty() && !stderr.contains("error") {
        // nothing failed at all: every reject literal compiled
    }
    if errs.keys().any(|k| k != "src/bin/reject.rs") && lib_errs.is_empty() && !reject.is_empty() {
        return Err(format!("cargo check reported errors outside the generated reject file: {:?}\n{}", errs.keys().collect::<Vec<_>>(), &stderr[..stderr.len().min(2000)]));
    }
    for (k, lit) in reject.iter().enumerate() {
        l.evals += 1;
        if !lib_errs.contains(&(k + 3)) {
            let cls = class_name(lit_class(lit));
            l.violation(format!("Dec! | {} | compiles although from_str fails", cls), || (format!("Dec!({}) compiles; Decimal::from_str({:?}) = {:?}", lit, lit, Decimal::from_str(lit).err()), json!({"lit": lit})));
        }
    }
    // (1b) the same reject file in the RELEASE profile: the proc macro is then compiled without overflow checks and
    // debug assertions, so a scaling step that relies on them to reject a literal lets it through (seeded changes
    // C18-h1, C20-h1: Dec!(0e39) / Dec!(2e38) compile to a wrapped constant in release builds only)
    let (_okr, errs_r, stderr_r) = cargo(&["check", "--release", "--bin", "reject"]);
    let rel_errs = errs_r.get("src/bin/reject.rs").cloned().unwrap_or_default();
    if errs_r.keys().any(|k| k != "src/bin/reject.rs") && rel_errs.is_empty() && !reject.is_empty() {
        return Err(format!("cargo check --release reported errors outside the generated reject file: {:?}\n{}", errs_r.keys().collect::<Vec<_>>(), &stderr_r[..stderr_r.len().min(2000)]));
    }
    for (k, lit) in reject.iter().enumerate() {
        l.evals += 1;
        if !rel_errs.contains(&(k + 3)) {
            let cls = class_name(lit_class(lit));
            l.violation(format!("Dec! (release profile) | {} | compiles although from_str fails", cls), || (format!("Dec!({}) compiles with --release; Decimal::from_str({:?}) = {:?}", lit, lit, Decimal::from_str(lit).err()), json!({"lit": lit})));
        }
    }
    // (2) accept file: must compile; failing lines are violations and are removed for a second build
    let (ok, errs, stderr) = cargo(&["build", "--bin", "accept"]);
    let mut bad_lines: BTreeSet<usize> = errs.get("src/bin/accept.rs").cloned().unwrap_or_default();
    if !ok && bad_lines.is_empty() {
        return Err(format!("generated accept program failed to build without a located error:\n{}", &stderr[..stderr.len().min(3000)]));
    }
    let mut accept2 = accept.clone();
    let mut want2 = want.clone();
    if !bad_lines.is_empty() {
        for &line in bad_lines.iter() {
            let k = line - 4;
            if let Some(lit) = accept.get(k) {
                l.evals += 1;
                let cls = class_name(lit_class(lit) | 1 << 4);
                l.violation(format!("Dec! | {} | fails to compile although from_str succeeds", cls), || (format!("Dec!({}) does not compile; Decimal::from_str({:?}) = {:?}", lit, lit, Decimal::from_str(lit).map(|d| (d.coefficient(), d.n_frac_digits()))), json!({"lit": lit})));
            }
        }
        let keep: Vec<usize> = (0..accept.len()).filter(|k| !bad_lines.contains(&(k + 4))).collect();
        accept2 = keep.iter().map(|&k| accept[k].clone()).collect();
        want2 = keep.iter().map(|&k| want[k]).collect();
        write_crate(&accept2, &reject).map_err(|e| e.to_string())?;
        let (ok2, errs2, stderr2) = cargo(&["build", "--bin", "accept"]);
        bad_lines = errs2.get("src/bin/accept.rs").cloned().unwrap_or_default();
        if !ok2 { return Err(format!("accept program still fails after removing the failing lines: {:?}\n{}", bad_lines, &stderr2[..stderr2.len().min(2000)])); }
    }
    // (3) run it and compare the constants with from_str
    let out = Command::new(format!("{}/debug/accept", target_dir())).output().map_err(|e| format!("run accept: {}", e))?;
    if !out.status.success() { return Err(format!("accept program exited with {:?}", out.status)); }
    let text = String::from_utf8_lossy(&out.stdout);
    let mut seen = 0;
    for line in text.lines() {
        let mut it = line.split(' ');
        let k: usize = it.next().unwrap().parse().unwrap();
        let c: i128 = it.next().unwrap().parse().unwrap();
        let s: u8 = it.next().unwrap().parse().unwrap();
        seen += 1;
        l.evals += 1;
        l.outcome(hash_i128s(&[c, s as i128]));
        if (c, s) != want2[k] {
            let lit = &accept2[k];
            let cls = class_name(lit_class(lit) | 1 << 4);
            l.violation(format!("Dec! | {} | constant differs from from_str", cls), || (format!("Dec!({}) = ({},{}), from_str = {:?}", lit, c, s, want2[k]), json!({"lit": lit})));
        }
    }
    if seen != accept2.len() { return Err(format!("accept program printed {} of {} constants", seen, accept2.len())); }
    Ok(())
}

pub fn replay(w: &Value) -> Vec<(String, String)> {
    let run = Run::new("C18", Tier::Quick);
    let lit = w["lit"].as_str().unwrap_or("1").to_string();
    // a neutral companion keeps both generated files non-trivial
    let lits = vec![lit, "1".to_string(), "1e99".to_string()];
    run.seq(|l| { if let Err(e) = explore(&lits, l) { l.violation("machinery | replay | generated crate failed".into(), || (e.clone(), json!({}))); } });
    run.violations().into_iter().map(|(s, r)| (s, r.detail)).collect()
}

pub fn run(tier: Tier) -> i32 {
    let run = Run::new("C18", tier);
    let lits = literals(tier.thorough());
    let mut mach: Option<String> = None;
    run.seq(|l| { if let Err(e) = explore(&lits, l) { mach = Some(e); } });
    run.stage("generated crate compiled and executed", json!({"programs": lits.len(), "generated_crate": gen_dir()}));
    run.set_extra("programs", json!(lits.len()));
    run.set_extra("disagreements_checked", json!(lits.len()));
    if let Some(e) = &mach {
        eprintln!("MACHINERY-FAILURE: {}", e);
    }
    let mut required: Vec<Vec<u64>> = Vec::new();
    for acc in [0u64, 1 << 4] { for fr in [0u64, 1 << 3] { for ex in [0u64, 1 << 2] { for sg in 0..3u64 { required.push(vec![acc | fr | ex | sg]); } } } }
    let rc = finish(Finish {
        run: &run,
        level: "model_checking",
        rule: "All literal programs Dec!(<lit>) of the bounded grammar sign {'', -, +} x integer part (0, 00, 1, 7, 10, 123, 007, 19/20-digit values, floor(M/10^k)+{0,1}, 2^127-1, 2^127, 2^128-1, 2^128, wrap-band anchors, 10^38, 10^39-1, 10^39, 40 digits) x fraction {absent, '.', .0, .5, .50, .05, 17/18/19/20 digits and zeros, 17/18 zeros + 1} x exponent {absent, e0, e1, E1, e+1, e-1, e+-17..19, e21, e38, e39, e40, e-40, e005, e00, e-0, E+38, e+-100} restricted to single unsuffixed literal tokens of rustc's lexer, plus redundant-zero forms (20..60 leading zeros, zero-padded exponents, 0.000..0ddd e+k), exponents next to the truncating-cast wrap points, 1_000, 0x1F, 0b11, 0o7 (lexer-valid, parser-invalid); quick thins the four-way product deterministically, thorough takes it whole with all exponents -40..=40. Each program is compiled by the real proc macro and rustc; accept programs are executed. Oracle: Decimal::from_str of the same text. Every program is distinct and non-trivial.".into(),
        exhaustive: true,
        assumptions: vec!["rustc/cargo of this sandbox (1.95); one error per failing invocation is located by its primary span line".into()],
        class_name: &class_name,
        required,
        replay: &replay,
    });
    if mach.is_some() { return 2; }
    rc
}
